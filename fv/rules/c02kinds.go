package rules

import (
	"go/ast"
	"go/constant"
	"go/token"
	"go/types"
	"sort"
	"strconv"
	"strings"

	"fv/internal/core"
	"fv/internal/ssax"

	"golang.org/x/tools/go/packages"
	"golang.org/x/tools/go/ssa"
)

// aliasAgreement: `byte` and `i8` name the same IDL type. In every switch
// over parser.Type.Name of the given packages, both spellings are handled or
// neither is — a switch that lists only one lets the other fall into default.
func aliasAgreement(ctx *core.Ctx, cc *CC, rule string, pkgNames map[string]bool, detail string) {
	type sw struct {
		pos    token.Pos
		fn     string
		labels map[string]bool
		pkg    *packages.Package
	}
	var sws []sw
	for _, p := range cc.V.Pkgs {
		if !pkgNames[p.Name] {
			continue
		}
		for _, f := range p.Syntax {
			for _, d := range f.Decls {
				fd, ok := d.(*ast.FuncDecl)
				if !ok || fd.Body == nil {
					continue
				}
				ast.Inspect(fd.Body, func(n ast.Node) bool {
					s, ok := n.(*ast.SwitchStmt)
					if !ok || s.Tag == nil {
						return true
					}
					sel, ok := ast.Unparen(s.Tag).(*ast.SelectorExpr)
					if !ok || sel.Sel.Name != "Name" {
						return true
					}
					t := p.TypesInfo.Types[sel.X].Type
					if t == nil || !(isNamedPtr(t, "parser", "Type") || isNamedPtr(t, "parser", "Type")) {
						return true
					}
					labels := map[string]bool{}
					for _, st := range s.Body.List {
						for _, e := range st.(*ast.CaseClause).List {
							if tv, ok := p.TypesInfo.Types[e]; ok && tv.Value != nil && tv.Value.Kind() == constant.String {
								labels[constant.StringVal(tv.Value)] = true
							}
						}
					}
					name := fd.Name.Name
					if fd.Recv != nil && len(fd.Recv.List) > 0 {
						name = types.ExprString(fd.Recv.List[0].Type) + "." + name
					}
					sws = append(sws, sw{s.Pos(), p.Name + "." + name, labels, p})
					return true
				})
			}
		}
	}
	sort.Slice(sws, func(i, j int) bool { return sws[i].pos < sws[j].pos })
	seen := map[string]int{}
	for _, s := range sws {
		if !s.labels["byte"] && !s.labels["i8"] {
			continue
		}
		seen[s.fn]++
		construct := s.fn + " › switch over the IDL type name #" + strconv.Itoa(seen[s.fn]) + " handles byte and i8 alike"
		ok := s.labels["byte"] && s.labels["i8"]
		missing := "i8"
		if !s.labels["byte"] {
			missing = "byte"
		}
		ctx.Check(ok, rule, construct, cc.V.Pos(s.pos), "both spellings are case labels", "the switch handles only one spelling of the 8-bit integer type: `"+missing+"` falls into the default branch — "+detail)
	}
}

// c02KindIndependence — C02.R8: in the Go struct generators, code emitted
// under a test of the field's requiredness is emitted for plain structs and
// exceptions alike (only unions, whose members the parser forces optional,
// may be excluded).
func c02KindIndependence(ctx *core.Ctx, cc *CC) {
	ctx.Rule("C02.R8", "requiredness handling does not depend on the struct kind: code generated under a test of field.Modifier is generated for structs and exceptions alike", 6)
	gp := cc.Pkg("generator/golang")
	pp := cc.Pkg("parser")
	if gp == nil || pp == nil {
		ctx.Unresolved("C02.R8", "packages", "golang generator / parser not loaded")
		return
	}
	kinds := map[string]int64{}
	for _, n := range []string{"StructTypeStruct", "StructTypeException", "StructTypeUnion"} {
		if c, ok := pp.Members[n].(*ssa.NamedConst); ok {
			if v, ok := constant.Int64Val(c.Value.Value); ok {
				kinds[n] = v
			}
		}
	}
	if len(kinds) != 3 {
		ctx.Unresolved("C02.R8", "parser.StructType constants", "StructTypeStruct/Exception/Union not found")
		return
	}
	isFieldLoad := func(v ssa.Value, owner, field string) bool {
		u, ok := ssax.Strip(v).(*ssa.UnOp)
		if !ok || u.Op != token.MUL {
			return false
		}
		fa, ok := u.X.(*ssa.FieldAddr)
		return ok && fieldName(fa) == field && ssax.TypeNamed(fa.X.Type(), "", owner)
	}
	// truth of a kind test for a given kind; ok=false when v is not a kind test
	var kindTest func(v ssa.Value, kind int64) (bool, bool)
	kindTest = func(v ssa.Value, kind int64) (bool, bool) {
		switch x := v.(type) {
		case *ssa.UnOp:
			if x.Op == token.NOT {
				t, ok := kindTest(x.X, kind)
				return !t, ok
			}
		case *ssa.BinOp:
			if x.Op != token.EQL && x.Op != token.NEQ {
				return false, false
			}
			var c *ssa.Const
			switch {
			case isFieldLoad(x.X, "Struct", "Type"):
				c, _ = x.Y.(*ssa.Const)
			case isFieldLoad(x.Y, "Struct", "Type"):
				c, _ = x.X.(*ssa.Const)
			}
			if c == nil {
				return false, false
			}
			eq := c.Int64() == kind
			if x.Op == token.NEQ {
				eq = !eq
			}
			return eq, true
		}
		return false, false
	}
	isModifierTest := func(v ssa.Value) bool {
		b, ok := v.(*ssa.BinOp)
		return ok && (b.Op == token.EQL || b.Op == token.NEQ) && (isFieldLoad(b.X, "Field", "Modifier") || isFieldLoad(b.Y, "Field", "Modifier"))
	}
	// control conditions of a block: (cond, polarity) pairs along the dominator chain
	type cond struct {
		v   ssa.Value
		pol bool
		at  *ssa.If
	}
	conds := func(b *ssa.BasicBlock) []cond {
		var out []cond
		for cur := b; cur != nil; cur = cur.Idom() {
			if len(cur.Preds) != 1 {
				continue
			}
			p := cur.Preds[0]
			iff, ok := p.Instrs[len(p.Instrs)-1].(*ssa.If)
			if !ok || p.Succs[0] == p.Succs[1] {
				continue
			}
			out = append(out, cond{iff.Cond, p.Succs[0] == cur, iff})
		}
		return out
	}
	for _, fn := range cc.Fns {
		if fn.Pkg != gp {
			continue
		}
		n := 0
		for _, b := range fn.Blocks {
			iff, ok := b.Instrs[len(b.Instrs)-1].(*ssa.If)
			if !ok || !isModifierTest(iff.Cond) {
				continue
			}
			n++
			construct := QName(fn) + " › requiredness test #" + strconv.Itoa(n)
			// blocks in the region controlled by this test: dominated by either successor (single-pred)
			bad := ""
			check := func(blk *ssa.BasicBlock) {
				for _, c := range conds(blk) {
					for _, kn := range []string{"StructTypeStruct", "StructTypeException"} {
						t, isKind := kindTest(c.v, kinds[kn])
						if isKind && t != c.pol {
							bad = cc.IPos(c.at) + ": unreachable for " + strings.TrimPrefix(kn, "StructType") + "s"
						}
					}
				}
			}
			check(b)
			for _, blk := range fn.Blocks {
				for _, s := range b.Succs {
					if len(s.Preds) == 1 && s.Dominates(blk) {
						check(blk)
					}
				}
			}
			ctx.Check(bad == "", "C02.R8", construct, cc.IPos(iff), "no struct-kind test excludes structs or exceptions from the code generated under this test",
				"code depending on the field's requiredness is generated only for some struct kinds ("+bad+"): e.g. the generated Read of an exception no longer rejects an encoding that lacks a required member")
		}
	}
}

// c02HelperNames — C02.R10: every runtime helper name the Go generator can
// compose as frugal.Write<X>WithContext exists in package frugal. X is a
// constant assigned in the composing function or snakeToCamel(base type name)
// for every base type that no case label / equality test of the function
// overrides.
func c02HelperNames(ctx *core.Ctx, cc *CC, base []string, runtimeHas func(string) bool) {
	ctx.Rule("C02.R10", "composed helper names exist: every frugal.Write<X>WithContext the Go generator can emit is a function of the runtime, for every base type", 9)
	gp := cc.Pkg("generator/golang")
	n := 0
	for _, fn := range cc.Fns {
		if fn.Pkg != gp {
			continue
		}
		for _, c := range ssax.Calls(fn) {
			if c.FullName() != "fmt.Sprintf" {
				continue
			}
			f, isK := ConstString(c.Args()[0])
			if !isK || !strings.Contains(f, "frugal.Write%sWithContext") {
				continue
			}
			va := VarargValues(c.Args()[1])
			if len(va) == 0 {
				continue
			}
			name := va[0]
			if mi, ok := name.(*ssa.MakeInterface); ok {
				name = mi.X
			}
			// constants and the dynamic camel-cased type name reaching the operand
			consts := map[string]bool{}
			dynamic := false
			seen := map[ssa.Value]bool{}
			var walk func(v ssa.Value)
			walk = func(v ssa.Value) {
				if seen[v] {
					return
				}
				seen[v] = true
				switch x := v.(type) {
				case *ssa.Phi:
					for _, e := range x.Edges {
						walk(e)
					}
				case *ssa.Const:
					if s, ok := ConstString(x); ok {
						consts[s] = true
					}
				case *ssa.Call:
					if cc2, ok := ssax.AsCall(x); ok && cc2.Static != nil && cc2.Static.Name() == "snakeToCamel" {
						dynamic = true
					}
				}
			}
			walk(name)
			// labels compared with a parser.Type.Name in this function
			labels := map[string]bool{}
			ssax.Instrs(fn, func(in ssa.Instruction) {
				bo, ok := in.(*ssa.BinOp)
				if !ok || bo.Op != token.EQL {
					return
				}
				for _, pair := range [][2]ssa.Value{{bo.X, bo.Y}, {bo.Y, bo.X}} {
					if s, isS := ConstString(pair[1]); isS {
						if u, isU := ssax.Strip(pair[0]).(*ssa.UnOp); isU {
							if fa, isFA := u.X.(*ssa.FieldAddr); isFA && fieldName(fa) == "Name" && ssax.TypeNamed(fa.X.Type(), "", "Type") {
								labels[s] = true
							}
						}
					}
				}
			})
			camel := func(s string) string {
				out := ""
				for _, w := range strings.Split(s, "_") {
					if w != "" {
						out += strings.ToUpper(w[:1]) + w[1:]
					}
				}
				return out
			}
			var xs []string
			for s := range consts {
				xs = append(xs, s)
			}
			if dynamic {
				for _, b := range base {
					if !labels[b] {
						xs = append(xs, camel(b))
					}
				}
			}
			sort.Strings(xs)
			for _, x := range xs {
				n++
				ctx.Check(runtimeHas("Write"+x+"WithContext"), "C02.R10", QName(fn)+" › frugal.Write"+x+"WithContext exists", cc.IPos(c.Instr), "declared in lib/go",
					"the generator can emit a call of frugal.Write"+x+"WithContext, which the runtime does not declare: the generated code for a field of that type does not compile (e.g. i8 with the slim option)")
			}
		}
	}
	if n == 0 {
		ctx.Unresolved("C02.R10", "golang generator", "no composed frugal.Write%sWithContext call found")
	}
}

// scalarClassification — C02.R11. An enum is a scalar on the wire (an i32) but
// (*parser.Type).IsPrimitive() is false for it. Every generator function that
// branches on IsPrimitive() therefore also asks IsEnum — in itself or in a
// helper of the package it calls — or it treats optional/required enum
// fields like structs (no presence pointer, no value write). The rule is a
// confirmed majority rule: on the pinned tree 19 of 20 such functions do; the
// one exception is listed with its reason.
func scalarClassification(ctx *core.Ctx, cc *CC, rule string) {
	ctx.Rule(rule, "scalar classification accounts for enums: a generator function that branches on Type.IsPrimitive() also consults Frugal.IsEnum", 19)
	exceptions := map[string]string{
		"dartlang.(*Generator).generateInitValue": "initial values of the legacy (non-null-unset) Dart mode; an enum field is left null there, which does not reach the wire format",
	}
	gens := map[string]bool{"golang": true, "java": true, "dartlang": true, "python": true}
	uses := func(fn *ssa.Function, short string, depth int) bool {
		found := false
		var walk func(g *ssa.Function, d int)
		seen := map[*ssa.Function]bool{}
		walk = func(g *ssa.Function, d int) {
			if seen[g] || found {
				return
			}
			seen[g] = true
			for _, c := range ssax.Calls(g) {
				if c.Static != nil && c.Static.Name() == short && c.Static.Pkg != nil && c.Static.Pkg.Pkg.Name() == "parser" {
					found = true
					return
				}
				if d > 0 && c.Static != nil && c.Static.Pkg == fn.Pkg && len(c.Static.Blocks) > 0 {
					walk(c.Static, d-1)
				}
			}
		}
		walk(fn, depth)
		return found
	}
	for _, fn := range cc.Fns {
		if fn.Pkg == nil || !gens[fn.Pkg.Pkg.Name()] || fn.Parent() != nil {
			continue
		}
		if !uses(fn, "IsPrimitive", 0) {
			continue
		}
		name := QName(fn)
		if why, ok := exceptions[name]; ok {
			ctx.Discharge(rule, name+" › enums considered where primitives are", cc.FPos(fn), "listed exception: "+why)
			continue
		}
		ctx.Check(uses(fn, "IsEnum", 1), rule, name+" › enums considered where primitives are", cc.FPos(fn), "IsPrimitive() and IsEnum() both consulted",
			"the function classifies a type with IsPrimitive() alone; IsPrimitive() is false for an enum, so an enum field falls on the struct/container side of the decision (e.g. an optional enum without default stops being a presence pointer: the member whose value is 0 is never written and reads back as unset)")
	}
}

// generatorCaches — C02.R12 (also run as C19.R8). A ProgramGenerator is
// reused for the root file and, with -r, for every include: only its Frugal
// field is switched (SetFrugal). A map field of a generator that memoises
// what the *current* program resolves (a value obtained from a method of
// parser.Frugal: UnderlyingType, IsEnum, FindStruct …) answers with the root
// file's resolution while an include is generated — unless the generator
// drops the cache where the program is switched. Keyed by type name, two files
// that declare `Stamp` differently get each other's wire type.
func generatorCaches(ctx *core.Ctx, cc *CC, rule string) {
	n := 0
	for _, fn := range cc.Fns {
		if fn.Pkg == nil || !strings.Contains(fn.Pkg.Pkg.Path(), "/compiler/generator") {
			continue
		}
		ssax.Instrs(fn, func(in ssa.Instruction) {
			mu, ok := in.(*ssa.MapUpdate)
			if !ok {
				return
			}
			// a map field of a generator object
			ld, ok := ssax.Strip(mu.Map).(*ssa.UnOp)
			if !ok {
				return
			}
			fa, ok := ld.X.(*ssa.FieldAddr)
			if !ok {
				return
			}
			pt, ok := fa.X.Type().Underlying().(*types.Pointer)
			if !ok {
				return
			}
			owner, ok := pt.Elem().(*types.Named)
			if !ok || owner.Obj().Pkg() == nil || !strings.Contains(owner.Obj().Pkg().Path(), "/compiler/generator") {
				return
			}
			field := owner.Underlying().(*types.Struct).Field(fa.Field).Name()
			// the stored value comes from the current program's resolution
			fromProgram := false
			var walk func(v ssa.Value, d int)
			seen := map[ssa.Value]bool{}
			walk = func(v ssa.Value, d int) {
				v = ssax.Strip(v)
				if v == nil || seen[v] || d > 6 {
					return
				}
				seen[v] = true
				if c, isC := v.(*ssa.Call); isC {
					if g := c.Call.StaticCallee(); g != nil && g.Signature.Recv() != nil && ssax.TypeNamed(g.Signature.Recv().Type(), "parser", "Frugal") {
						fromProgram = true
						return
					}
				}
				if x, isI := v.(ssa.Instruction); isI {
					for _, op := range x.Operands(nil) {
						if *op != nil {
							walk(*op, d+1)
						}
					}
				}
			}
			walk(mu.Value, 0)
			if !fromProgram {
				return
			}
			n++
			// dropped where the program is switched: a SetFrugal of this generator type re-makes the map
			reset := false
			for _, g := range cc.Fns {
				if g.Name() != "SetFrugal" || g.Signature.Recv() == nil || !sameNamed(g.Signature.Recv().Type(), types.NewPointer(owner)) {
					continue
				}
				ssax.Instrs(g, func(x ssa.Instruction) {
					if st, isSt := x.(*ssa.Store); isSt {
						if f2, isFA := st.Addr.(*ssa.FieldAddr); isFA && f2.Field == fa.Field {
							if _, isMk := ssax.Strip(st.Val).(*ssa.MakeMap); isMk {
								reset = true
							}
						}
					}
				})
			}
			ctx.Check(reset, rule, QName(fn)+" › cache "+owner.Obj().Name()+"."+field+" is per program", cc.IPos(in), "re-made in SetFrugal",
				"the generator memoises what the current program resolves in "+owner.Obj().Name()+"."+field+", but the same generator object generates the root file and (with -r) every include, switching only its Frugal: the cached answer of one file is used for another (two files declaring a type of the same name with different underlying types get each other's wire type, and an include's output differs between a recursive and a stand-alone run)")
		})
	}
	if n == 0 {
		ctx.Discharge(rule, "generators › no program-dependent cache", "", "no map field of a generator stores what a parser.Frugal method returned")
	}
}

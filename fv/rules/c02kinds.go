package rules

import (
	"go/ast"
	"go/constant"
	"go/token"
	"go/types"
	"sort"
	"strconv"
	"strings"

	"fv/internal/core"
	"fv/internal/ssax"

	"golang.org/x/tools/go/packages"
	"golang.org/x/tools/go/ssa"
)

// aliasAgreement: `byte` and `i8` name the same IDL type. In every switch
// over parser.Type.Name of the given packages, both spellings are handled or
// neither is — a switch that lists only one lets the other fall into default.
func aliasAgreement(ctx *core.Ctx, cc *CC, rule string, pkgNames map[string]bool, detail string) {
	type sw struct {
		pos    token.Pos
		fn     string
		labels map[string]bool
		pkg    *packages.Package
	}
	var sws []sw
	for _, p := range cc.V.Pkgs {
		if !pkgNames[p.Name] {
			continue
		}
		for _, f := range p.Syntax {
			for _, d := range f.Decls {
				fd, ok := d.(*ast.FuncDecl)
				if !ok || fd.Body == nil {
					continue
				}
				ast.Inspect(fd.Body, func(n ast.Node) bool {
					s, ok := n.(*ast.SwitchStmt)
					if !ok || s.Tag == nil {
						return true
					}
					sel, ok := ast.Unparen(s.Tag).(*ast.SelectorExpr)
					if !ok || sel.Sel.Name != "Name" {
						return true
					}
					t := p.TypesInfo.Types[sel.X].Type
					if t == nil || !(isNamedPtr(t, "parser", "Type") || isNamedPtr(t, "parser", "Type")) {
						return true
					}
					labels := map[string]bool{}
					for _, st := range s.Body.List {
						for _, e := range st.(*ast.CaseClause).List {
							if tv, ok := p.TypesInfo.Types[e]; ok && tv.Value != nil && tv.Value.Kind() == constant.String {
								labels[constant.StringVal(tv.Value)] = true
							}
						}
					}
					name := fd.Name.Name
					if fd.Recv != nil && len(fd.Recv.List) > 0 {
						name = types.ExprString(fd.Recv.List[0].Type) + "." + name
					}
					sws = append(sws, sw{s.Pos(), p.Name + "." + name, labels, p})
					return true
				})
			}
		}
	}
	sort.Slice(sws, func(i, j int) bool { return sws[i].pos < sws[j].pos })
	seen := map[string]int{}
	for _, s := range sws {
		if !s.labels["byte"] && !s.labels["i8"] {
			continue
		}
		seen[s.fn]++
		construct := s.fn + " › switch over the IDL type name #" + strconv.Itoa(seen[s.fn]) + " handles byte and i8 alike"
		ok := s.labels["byte"] && s.labels["i8"]
		missing := "i8"
		if !s.labels["byte"] {
			missing = "byte"
		}
		ctx.Check(ok, rule, construct, cc.V.Pos(s.pos), "both spellings are case labels", "the switch handles only one spelling of the 8-bit integer type: `"+missing+"` falls into the default branch — "+detail)
	}
}

// c02KindIndependence — C02.R8: in the Go struct generators, code emitted
// under a test of the field's requiredness is emitted for plain structs and
// exceptions alike (only unions, whose members the parser forces optional,
// may be excluded).
func c02KindIndependence(ctx *core.Ctx, cc *CC) {
	ctx.Rule("C02.R8", "requiredness handling does not depend on the struct kind: code generated under a test of field.Modifier is generated for structs and exceptions alike", 6)
	gp := cc.Pkg("generator/golang")
	pp := cc.Pkg("parser")
	if gp == nil || pp == nil {
		ctx.Unresolved("C02.R8", "packages", "golang generator / parser not loaded")
		return
	}
	kinds := map[string]int64{}
	for _, n := range []string{"StructTypeStruct", "StructTypeException", "StructTypeUnion"} {
		if c, ok := pp.Members[n].(*ssa.NamedConst); ok {
			if v, ok := constant.Int64Val(c.Value.Value); ok {
				kinds[n] = v
			}
		}
	}
	if len(kinds) != 3 {
		ctx.Unresolved("C02.R8", "parser.StructType constants", "StructTypeStruct/Exception/Union not found")
		return
	}
	isFieldLoad := func(v ssa.Value, owner, field string) bool {
		u, ok := ssax.Strip(v).(*ssa.UnOp)
		if !ok || u.Op != token.MUL {
			return false
		}
		fa, ok := u.X.(*ssa.FieldAddr)
		return ok && fieldName(fa) == field && ssax.TypeNamed(fa.X.Type(), "", owner)
	}
	// truth of a kind test for a given kind; ok=false when v is not a kind test
	var kindTest func(v ssa.Value, kind int64) (bool, bool)
	kindTest = func(v ssa.Value, kind int64) (bool, bool) {
		switch x := v.(type) {
		case *ssa.UnOp:
			if x.Op == token.NOT {
				t, ok := kindTest(x.X, kind)
				return !t, ok
			}
		case *ssa.BinOp:
			if x.Op != token.EQL && x.Op != token.NEQ {
				return false, false
			}
			var c *ssa.Const
			switch {
			case isFieldLoad(x.X, "Struct", "Type"):
				c, _ = x.Y.(*ssa.Const)
			case isFieldLoad(x.Y, "Struct", "Type"):
				c, _ = x.X.(*ssa.Const)
			}
			if c == nil {
				return false, false
			}
			eq := c.Int64() == kind
			if x.Op == token.NEQ {
				eq = !eq
			}
			return eq, true
		}
		return false, false
	}
	isModifierTest := func(v ssa.Value) bool {
		b, ok := v.(*ssa.BinOp)
		return ok && (b.Op == token.EQL || b.Op == token.NEQ) && (isFieldLoad(b.X, "Field", "Modifier") || isFieldLoad(b.Y, "Field", "Modifier"))
	}
	// control conditions of a block: (cond, polarity) pairs along the dominator chain
	type cond struct {
		v   ssa.Value
		pol bool
		at  *ssa.If
	}
	conds := func(b *ssa.BasicBlock) []cond {
		var out []cond
		for cur := b; cur != nil; cur = cur.Idom() {
			if len(cur.Preds) != 1 {
				continue
			}
			p := cur.Preds[0]
			iff, ok := p.Instrs[len(p.Instrs)-1].(*ssa.If)
			if !ok || p.Succs[0] == p.Succs[1] {
				continue
			}
			out = append(out, cond{iff.Cond, p.Succs[0] == cur, iff})
		}
		return out
	}
	for _, fn := range cc.Fns {
		if fn.Pkg != gp {
			continue
		}
		n := 0
		for _, b := range fn.Blocks {
			iff, ok := b.Instrs[len(b.Instrs)-1].(*ssa.If)
			if !ok || !isModifierTest(iff.Cond) {
				continue
			}
			n++
			construct := QName(fn) + " › requiredness test #" + strconv.Itoa(n)
			// blocks in the region controlled by this test: dominated by either successor (single-pred)
			bad := ""
			check := func(blk *ssa.BasicBlock) {
				for _, c := range conds(blk) {
					for _, kn := range []string{"StructTypeStruct", "StructTypeException"} {
						t, isKind := kindTest(c.v, kinds[kn])
						if isKind && t != c.pol {
							bad = cc.IPos(c.at) + ": unreachable for " + strings.TrimPrefix(kn, "StructType") + "s"
						}
					}
				}
			}
			check(b)
			for _, blk := range fn.Blocks {
				for _, s := range b.Succs {
					if len(s.Preds) == 1 && s.Dominates(blk) {
						check(blk)
					}
				}
			}
			ctx.Check(bad == "", "C02.R8", construct, cc.IPos(iff), "no struct-kind test excludes structs or exceptions from the code generated under this test",
				"code depending on the field's requiredness is generated only for some struct kinds ("+bad+"): e.g. the generated Read of an exception no longer rejects an encoding that lacks a required member")
		}
	}
}

package rules

import (
	"go/token"
	"go/types"
	"strings"

	"fv/internal/core"
	"fv/internal/ssax"

	"golang.org/x/tools/go/ssa"
)

// c20NoClientSideDrop — C20.R9. A request the NATS client has received for one
// of the server's subscriptions stays queued in the client until the handler
// takes it (back-pressure, C20.R4). SetPendingLimits on such a subscription
// turns the queue into a dropping one: while the workers are busy everything
// beyond the limit is discarded as a slow consumer — received before Stop,
// never processed, never answered.
func c20NoClientSideDrop(ctx *core.Ctx, r *RT) {
	ctx.Rule("C20.R9", "requests received by the NATS client are never dropped before the handler sees them: no pending limit is set on the server's subscriptions", 1)
	n := 0
	for _, fn := range r.Fns {
		for _, c := range ssax.Calls(fn) {
			full := c.FullName()
			if strings.Contains(full, "nats") && (strings.HasSuffix(full, ".SetPendingLimits") || strings.HasSuffix(full, ".SetPendingLimitsMsgs")) {
				n++
				ctx.Violate("C20.R9", ssax.Name(fn)+" › "+c.ShortName()+" on a subscription", r.IPos(c.Instr),
					"a pending limit makes the NATS client drop received requests while the handler is blocked on the full work queue: they arrived before Stop and are never processed or answered")
			}
		}
	}
	if n == 0 {
		ctx.Discharge("C20.R9", "package frugal › no pending limits on subscriptions", "", sprintf("%d function(s) scanned", len(r.Fns)))
	}
}

// c08VariablesKeepOrder — C08.R11. The prefix text and the list of its
// variables are two views of one declaration; every generator substitutes the
// i-th variable into the i-th slot. Nothing in the compiler may therefore
// reorder ScopePrefix.Variables: a sort of that slice (a duplicate check that
// sorts "a copy" which is the same backing array) puts the values of
// `org.{tenant}.{app}` into each other's slots in every language.
func c08VariablesKeepOrder(ctx *core.Ctx, cc *CC) {
	ctx.Rule("C08.R11", "prefix variables keep their declaration order: no sort is applied to ScopePrefix.Variables (or a slice sharing its storage)", 1)
	n := 0
	for _, fn := range cc.Fns {
		if fn.Pkg == nil || !strings.Contains(fn.Pkg.Pkg.Path(), "/compiler") {
			continue
		}
		for _, c := range ssax.Calls(fn) {
			if !strings.HasPrefix(c.FullName(), "sort.") || len(c.Common.Args) == 0 {
				continue
			}
			a := ssax.Strip(c.Common.Args[0])
			if mi, ok := a.(*ssa.MakeInterface); ok {
				a = ssax.Strip(mi.X)
			}
			if ch, ok := a.(*ssa.ChangeType); ok {
				a = ssax.Strip(ch.X)
			}
			if sl, ok := a.(*ssa.Slice); ok {
				a = ssax.Strip(sl.X)
			}
			if ld, ok := a.(*ssa.UnOp); ok && ld.Op == token.MUL && fieldNameOfAddr(ld.X) == "Variables" {
				n++
				ctx.Violate("C08.R11", QName(fn)+" › "+c.ShortName()+" of the prefix variables", cc.IPos(c.Instr.(ssa.Instruction)),
					"the scope's own Variables slice is sorted in place while the prefix text keeps the declared slot order: for a prefix whose variables are not already in that order every generator substitutes the values into the wrong slots")
			}
		}
	}
	if n == 0 {
		ctx.Discharge("C08.R11", "compiler › ScopePrefix.Variables is never sorted", "", "no sort.* call takes the Variables field of a prefix")
	}
}

// c15OpenIsOneCriticalSection — C15.R11. Open tests "already open" and, if not,
// opens the underlying transport and installs the session (close channels,
// read loop, isOpen). Test and installation belong to ONE critical section of
// the lifecycle mutex: if the lock is released in between, two overlapping
// Opens both pass the test, both return nil, the second overwrites the first
// session's close channels (its cause is never published) and two read loops
// consume one byte stream.
func c15OpenIsOneCriticalSection(ctx *core.Ctx, r *RT) {
	ctx.Rule("C15.R11", "Open is one critical section: the lifecycle lock is not released between the already-open test and the store that marks the transport open", 1)
	n := 0
	for _, fn := range r.Impl("FTransport", "Open") {
		var loads, stores, unlocks []ssa.Instruction
		ssax.Instrs(fn, func(in ssa.Instruction) {
			switch x := in.(type) {
			case *ssa.UnOp:
				if x.Op == token.MUL && fieldNameOfAddr(x.X) == "isOpen" {
					loads = append(loads, in)
				}
			case *ssa.Store:
				if fieldNameOfAddr(x.Addr) == "isOpen" {
					stores = append(stores, in)
				}
			}
			if c, ok := ssax.AsCall(in); ok {
				if _, isDefer := in.(*ssa.Defer); !isDefer {
					if s := c.ShortName(); (s == "Unlock" || s == "RUnlock") && strings.HasPrefix(c.FullName(), "(*sync.") {
						unlocks = append(unlocks, in)
					}
				}
			}
		})
		if len(loads) == 0 || len(stores) == 0 {
			continue
		}
		n++
		bad := ""
		for _, ld := range loads {
			for _, u := range unlocks {
				for _, st := range stores {
					isU := func(x ssa.Instruction) bool { return x == u }
					isS := func(x ssa.Instruction) bool { return x == st }
					if ssax.PathFrom(fn, ld, isU, nil) != nil && ssax.PathFrom(fn, u, isS, nil) != nil {
						bad = r.IPos(u)
					}
				}
			}
		}
		ctx.Check(bad == "", "C15.R11", ssax.Name(fn)+" › already-open test and isOpen = true share one critical section", fnPos(r, fn), "no unlock lies between the test and the store",
			"the lifecycle lock is released at "+bad+" between the already-open test and the installation of the session: two overlapping Open calls both succeed — the first session's close channel is overwritten (its cause is never published, ALREADY_OPEN is never reported) and two read loops read one stream")
	}
	if n == 0 {
		ctx.Unresolved("C15.R11", "Open", "no FTransport.Open that tests and sets an isOpen field")
	}
}

var _ = core.Ctx{}

// c12RejectionLeavesStateAlone — C12.R16. "After an oversize failure the same
// client keeps working": refusing a message that is too large is a verdict on
// the message, not on the transport. In every function that builds the
// REQUEST_TOO_LARGE exception, no deferred closure that was registered before
// the refusal writes a field of the receiver — `defer func(){ if err != nil
// { m.isOpen = false } }()` above the size guard closes the transport on a
// correct refusal, and every later in-limit publish fails with NOT_OPEN.
func c12RejectionLeavesStateAlone(ctx *core.Ctx, r *RT) {
	ctx.Rule("C12.R16", "a REQUEST_TOO_LARGE refusal changes no transport state: no deferred closure registered before the refusal stores into the receiver", 3)
	tooLarge := constInt(r, "TRANSPORT_EXCEPTION_REQUEST_TOO_LARGE")
	n := 0
	for _, fn := range r.Fns {
		if fn.Signature.Recv() == nil || len(fn.Params) == 0 {
			continue
		}
		var refusals []ssa.Instruction
		for _, c := range ssax.Calls(fn) {
			if c.ShortName() == "NewTTransportException" && len(c.Args()) > 0 {
				if k, isK := ssax.ConstInt(c.Args()[0]); isK && k == tooLarge {
					refusals = append(refusals, c.Instr.(ssa.Instruction))
				}
			}
		}
		if len(refusals) == 0 {
			continue
		}
		n++
		bad := ""
		ssax.Instrs(fn, func(in ssa.Instruction) {
			d, ok := in.(*ssa.Defer)
			if !ok {
				return
			}
			for _, cl := range funcValues(d.Call.Value) {
				writes := false
				ssax.Instrs(cl, func(x ssa.Instruction) {
					st, ok := x.(*ssa.Store)
					if !ok {
						return
					}
					if fa, ok := st.Addr.(*ssa.FieldAddr); ok {
						// the receiver, captured by the closure
						base := ssax.Strip(fa.X)
						if base == ssa.Value(fn.Params[0]) {
							writes = true // the captured receiver, resolved to the parameter itself
						}
						if fv, isFV := base.(*ssa.FreeVar); isFV && types.Identical(fv.Type(), fn.Params[0].Type()) {
							writes = true
						}
						if ld, isLd := base.(*ssa.UnOp); isLd {
							if _, isFV := ld.X.(*ssa.FreeVar); isFV && types.Identical(ld.Type(), fn.Params[0].Type()) {
								writes = true
							}
						}
					}
				})
				if !writes {
					continue
				}
				for _, rf := range refusals {
					if ssax.Dominates(in, rf) {
						bad = r.IPos(in)
					}
				}
			}
		})
		ctx.Check(bad == "", "C12.R16", ssax.Name(fn)+" › the size refusal leaves the transport as it was", fnPos(r, fn), "no state-writing defer is armed before the refusal",
			"a deferred closure armed at "+bad+" writes transport state on every error return, the correct REQUEST_TOO_LARGE refusal included: after one oversize message the transport reports closed and every later message within the limit is refused (NOT_OPEN)")
	}
	if n == 0 {
		ctx.Unresolved("C12.R16", "size refusals", "no method builds a REQUEST_TOO_LARGE exception")
	}
}

// c15CloseAnnouncedOnSuccessOnly — C15.R12. A transport's Close announces the
// close to everybody waiting on Closed() by calling the base transport's Close
// with the cause (nil = clean). That announcement belongs to the path on which
// Close succeeded: if it is deferred above a step that can fail, a Close that
// returns an error has still published "closed cleanly" — and, the transport
// not being torn down, the next Close publishes again on the closed channel
// (panic: send on closed channel).
func c15CloseAnnouncedOnSuccessOnly(ctx *core.Ctx, r *RT) {
	ctx.Rule("C15.R12", "a Close that fails has announced nothing: the base transport's Close (the close cause) is not executed on a path that returns an error", 1)
	n := 0
	for _, fn := range r.Impl("FTransport", "Close") {
		for _, c := range ssax.Calls(fn) {
			h := c.Static
			if h == nil || h == fn || h.Name() != "Close" || h.Signature.Recv() == nil || h.Pkg != fn.Pkg || h.Signature.Params().Len() != 1 {
				continue
			}
			n++
			at := c.Instr.(ssa.Instruction)
			isErrReturn := func(x ssa.Instruction) bool {
				ret, ok := x.(*ssa.Return)
				if !ok {
					return false
				}
				for _, rv := range ret.Results {
					if isErrorType(rv.Type()) {
						if k, isK := ssax.Strip(rv).(*ssa.Const); !isK || !k.IsNil() {
							return true
						}
					}
				}
				return false
			}
			bad := ssax.PathFrom(fn, at, isErrReturn, nil)
			ctx.Check(bad == nil, "C15.R12", ssax.Name(fn)+" › the close is announced on the success path only", r.IPos(at), "no error return is reachable after the announcement",
				"the base Close (which publishes the close cause) also runs when this Close returns an error — e.g. deferred above a failing Unsubscribe: waiters are told the transport closed cleanly although it did not, and a second Close publishes on the already closed channel (panic)")
		}
	}
	if n == 0 {
		ctx.Unresolved("C15.R12", "Close", "no FTransport.Close that announces through a base transport")
	}
}

// c10SeenItemsAreSkipped — C10.R22. A recursive collector walks a list (the
// includes of a file) and skips what it has seen already. "Skip" means go on
// with the NEXT item: a seen-set test inside the loop whose hit edge returns
// from the function abandons the rest of the list — every include that follows
// an already collected one (and everything reachable only through it) is
// missing from the result.
func c10SeenItemsAreSkipped(ctx *core.Ctx, cc *CC) {
	ctx.Rule("C10.R22", "a recursive collector skips an already collected item and continues with the next: no seen-set test inside its loop returns from the function on the hit edge", 1)
	n := 0
	for _, fn := range cc.Fns {
		if fn.Pkg == nil || !strings.Contains(fn.Pkg.Pkg.Path(), "/compiler") || strings.Contains(cc.V.Pos(fn.Pos()), "grammar.peg.go") {
			continue
		}
		selfRec := false
		for _, c := range ssax.Calls(fn) {
			if c.Static == fn {
				selfRec = true
			}
		}
		if !selfRec {
			continue
		}
		ord := 0
		ssax.Instrs(fn, func(in ssa.Instruction) {
			iff, ok := in.(*ssa.If)
			if !ok {
				return
			}
			var lk *ssa.Lookup
			switch c := iff.Cond.(type) {
			case *ssa.Lookup:
				lk = c
			case *ssa.Extract:
				if c.Index == 1 {
					lk, _ = c.Tuple.(*ssa.Lookup)
				}
			}
			if lk == nil {
				return
			}
			if _, isMap := lk.X.Type().Underlying().(*types.Map); !isMap {
				return
			}
			if _, isParam := ssax.Strip(lk.X).(*ssa.Parameter); !isParam {
				return // a set shared across the recursion
			}
			n++
			ord++
			if !inCycle(in) {
				ctx.Discharge("C10.R22", QName(fn)+sprintf(" › seen-set test #%d", ord), cc.IPos(in), "tested once per call, before the loop")
				return
			}
			hit := iff.Block().Succs[0]
			_, returns := hit.Instrs[len(hit.Instrs)-1].(*ssa.Return)
			ctx.Check(!returns, "C10.R22", QName(fn)+sprintf(" › seen-set test #%d", ord), cc.IPos(in), "the hit edge stays in the loop",
				"inside the loop over the items, an item that was collected before makes the function return: the items after it are never visited — in an include graph where a file lists an already collected include before a new one, the new one (and what only it reaches) is missing from the output")
		})
	}
	if n == 0 {
		ctx.Unresolved("C10.R22", "recursive collectors", "no self-recursive function with a seen-set parameter in the compiler")
	}
}

// c02RequalifyEveryKind — C02.R20. A typedef found in an include resolves to a
// type named relative to the include; UnderlyingType hands it back named
// relative to the asking file by re-qualifying it (qualifyType). That applies
// to every kind of resolved type — a container's element types are names too:
// a re-qualification that is additionally conditioned on the kind of the
// resolved type (`&& underlying.IsCustom()`) leaves `list<Inner>` of an include
// with the bare name `Inner`, which the asking file resolves in its own tables
// (wrong type generated; the audit compares `Inner` with `Inner`).
func c02RequalifyEveryKind(ctx *core.Ctx, cc *CC, rule string) {
	ctx.Rule(rule, "a type resolved through an include is re-qualified whatever its kind: the re-qualification in UnderlyingType depends only on whether the name was qualified", 1)
	ut := cc.FnOpt("parser", "(*Frugal).UnderlyingType")
	if ut == nil {
		ctx.Unresolved(rule, "UnderlyingType", "function not found")
		return
	}
	n := 0
	for _, c := range ssax.Calls(ut) {
		h := c.Static
		if h == nil || h == ut || h.Pkg != ut.Pkg || h.Signature.Params().Len() != 2 || h.Signature.Results().Len() != 1 ||
			!ssax.TypeNamed(h.Signature.Params().At(0).Type(), "parser", "Type") || !ssax.TypeNamed(h.Signature.Results().At(0).Type(), "parser", "Type") {
			continue
		}
		if b, ok := h.Signature.Params().At(1).Type().Underlying().(*types.Basic); !ok || b.Kind() != types.String {
			continue
		}
		n++
		bad := ""
		for cur := c.Instr.(ssa.Instruction).Block(); cur != nil; cur = cur.Idom() {
			if len(cur.Preds) != 1 {
				continue
			}
			p := cur.Preds[0]
			iff, ok := p.Instrs[len(p.Instrs)-1].(*ssa.If)
			if !ok || p.Succs[0] == p.Succs[1] {
				continue
			}
			// the condition may be about the NAME (include qualifier present, typedef
			// found, declaring file differs from this one) — not about the kind of a type
			var kindTest func(v ssa.Value, d int) bool
			kindTest = func(v ssa.Value, d int) bool {
				if d > 5 || v == nil {
					return false
				}
				switch x := v.(type) {
				case *ssa.BinOp:
					return kindTest(x.X, d+1) || kindTest(x.Y, d+1)
				case *ssa.UnOp:
					return kindTest(x.X, d+1)
				case *ssa.Phi:
					for _, e := range x.Edges {
						if kindTest(e, d+1) {
							return true
						}
					}
				case *ssa.Call:
					if cal := x.Call.StaticCallee(); cal != nil && cal.Signature.Recv() != nil && ssax.TypeNamed(cal.Signature.Recv().Type(), "parser", "Type") {
						switch cal.Name() {
						case "IncludeName", "ParamName":
							return false
						}
						return true
					}
				case *ssa.FieldAddr:
					return ssax.TypeNamed(x.X.Type(), "parser", "Type") && fieldNameOfAddr(x) != "Name"
				}
				return false
			}
			if kindTest(iff.Cond, 0) {
				bad = cc.IPos(iff)
			}
		}
		ctx.Check(bad == "", rule, QName(ut)+" › re-qualification through "+h.Name()+" is unconditional for included typedefs", cc.IPos(c.Instr.(ssa.Instruction)), "guarded only by the typedef lookup and by whether the name carries an include qualifier",
			"the re-qualification is additionally conditioned at "+bad+" (on the kind of the resolved type): for a container typedef declared in an include the element types keep their include-relative names and are resolved in the wrong file — wrong Go types, and an audit that compares `Inner` with `Inner`")
	}
	if n == 0 {
		ctx.Unresolved(rule, "re-qualification", "UnderlyingType calls no func(*Type, string) *Type helper")
	}
}

// c12ResponseVerdictIsTheServers — C12.R17. Whether a response is too large is
// decided where the response is built: the server measures the reply frame
// against the limit the client announced and answers 413 (HTTP) or the
// RESPONSE_TOO_LARGE application exception. The client only translates that
// verdict. A client-side guard of its own (a LimitReader on the base64 body,
// say) measures something else than the server did — a frame the server
// accepted and sent is thrown away with RESPONSE_TOO_LARGE. Every construction
// of the RESPONSE_TOO_LARGE transport exception therefore lies on the edge of a
// comparison with the server's verdict (status 413 / the application
// exception's type id).
func c12ResponseVerdictIsTheServers(ctx *core.Ctx, r *RT, rule string) {
	ctx.Rule(rule, "RESPONSE_TOO_LARGE is reported only where the server said so: every construction of that transport exception lies on the edge of a test of the server's verdict (HTTP 413 / application exception type)", 2)
	kind := constInt(r, "TRANSPORT_EXCEPTION_RESPONSE_TOO_LARGE")
	appKind := constInt(r, "APPLICATION_EXCEPTION_RESPONSE_TOO_LARGE")
	n := 0
	for _, fn := range r.Fns {
		ord := 0
		for _, c := range ssax.Calls(fn) {
			if c.ShortName() != "NewTTransportException" || len(c.Args()) == 0 {
				continue
			}
			if k, isK := ssax.ConstInt(c.Args()[0]); !isK || k != kind {
				continue
			}
			n++
			ord++
			ok := false
			for cur := c.Instr.(ssa.Instruction).Block(); cur != nil && !ok; cur = cur.Idom() {
				if len(cur.Preds) != 1 {
					continue
				}
				p := cur.Preds[0]
				iff, isIf := p.Instrs[len(p.Instrs)-1].(*ssa.If)
				if !isIf {
					continue
				}
				switch cond := iff.Cond.(type) {
				case *ssa.BinOp:
					for _, op := range []ssa.Value{cond.X, cond.Y} {
						if k, isK := ssax.ConstInt(op); isK && (k == 413 || k == appKind) {
							// … on the edge where the verdict IS "too large"
							if (cond.Op == token.EQL && p.Succs[0] == cur) || (cond.Op == token.NEQ && p.Succs[1] == cur) {
								ok = true
							}
						}
					}
				case *ssa.Call:
					// a predicate helper (responseTooLarge(resp)): judged by C12.R4
					if h := cond.Call.StaticCallee(); h != nil && h.Pkg == fn.Pkg && p.Succs[0] == cur {
						ok = true
					}
				}
			}
			ctx.Check(ok, rule, ssax.Name(fn)+sprintf(" › RESPONSE_TOO_LARGE #%d translates the server's verdict", ord), r.IPos(c.Instr), "on the edge of a test for 413 / APPLICATION_EXCEPTION_RESPONSE_TOO_LARGE",
				"the client decides by itself that a response is too large (a limit applied to the encoded body, say): a response the server measured, accepted and sent is discarded — the handler's result and response headers never reach the caller")
		}
	}
	if n == 0 {
		ctx.Unresolved(rule, "RESPONSE_TOO_LARGE", "no construction of the RESPONSE_TOO_LARGE transport exception found")
	}
}

// c08NoBlanketRemoval — C08.R12. A grammar action that strips a keyword from
// the text its rule matched (`prefix a.b.{c}` → `a.b.{c}`) removes it where the
// grammar put it: at the start (TrimPrefix) or the end (TrimSuffix). Removing
// every occurrence of the keyword's letters (strings.Replace(text, kw, "", -1),
// ReplaceAll) also eats them inside identifiers: the prefix
// `app.prefixes.{tenant}` becomes `app.es.{tenant}` in the model and in every
// generated topic.
func c08NoBlanketRemoval(ctx *core.Ctx, cc *CC, rule string) {
	ctx.Rule(rule, "the parser removes keywords from matched text by position only: no strings.Replace/ReplaceAll with an empty replacement removes every occurrence", 1)
	pp := cc.Pkg("parser")
	n := 0
	for _, fn := range cc.Fns {
		if fn.Pkg != pp {
			continue
		}
		for _, c := range ssax.Calls(fn) {
			full := c.FullName()
			if full != "strings.Replace" && full != "strings.ReplaceAll" {
				continue
			}
			a := c.Args()
			repl, isK := ssax.Strip(a[2]).(*ssa.Const)
			if !isK || repl.Value == nil || repl.Value.ExactString() != `""` {
				continue
			}
			if full == "strings.Replace" {
				if k, isN := ssax.ConstInt(a[3]); isN && k == 1 {
					continue
				}
			}
			n++
			ctx.Violate(rule, QName(fn)+" › "+c.ShortName()+" removes every occurrence", cc.IPos(c.Instr.(ssa.Instruction)),
				"a piece of text (a keyword such as `prefix`) is deleted wherever it occurs in what the rule matched, not only where the grammar put it: identifiers that contain those letters (`prefixes`, `{prefixId}`) are mutilated in the model, and publisher and subscriber of every language use a topic the IDL never declared")
		}
	}
	if n == 0 {
		ctx.Discharge(rule, "parser › no blanket removal of text", "", "no strings.Replace/ReplaceAll with an empty replacement and an unbounded count in package parser")
	}
}

package rules

import (
	"go/types"
	"sort"
	"strings"

	"fv/internal/core"
	"fv/internal/ssax"

	"golang.org/x/tools/go/ssa"
)

// timeoutChan: is ch a channel that fires when fctx's timeout elapses?
//   - (ToContext(fctx)).Done()
//   - time.After(fctx.Timeout())
func timeoutChan(r *RT, ch ssa.Value, fctx ssa.Value) (string, bool) {
	c, ok := CallValue(ch)
	if !ok {
		return "", false
	}
	if c.Method != nil && c.Method.Name() == "Done" && ssax.TypeNamed(c.Common.Value.Type(), "context", "Context") {
		if tup, ok := ExtractOf(c.Common.Value, 0); ok {
			if tc, ok := CallValue(tup); ok && tc.Static != nil && tc.Static.Pkg == r.Pkg && tc.Static.Name() == "ToContext" &&
				ssax.Strip(tc.Common.Args[0]) == ssax.Strip(fctx) {
				return "ToContext(fctx).Done()", true
			}
		}
		return "", false
	}
	if c.FullName() == "time.After" {
		if isTimeoutOf(c.Common.Args[0], fctx) {
			return "time.After(fctx.Timeout())", true
		}
	}
	return "", false
}

func isTimeoutOf(d ssa.Value, fctx ssa.Value) bool {
	dc, ok := CallValue(d)
	return ok && dc.Method != nil && dc.Method.Name() == "Timeout" && ssax.Strip(dc.Common.Value) == ssax.Strip(fctx)
}

// C13 — every call returns within its FContext timeout.
func C13(ctx *core.Ctx) {
	ctx.Explanation = "Decides for all peer behaviours the structural condition that every wait on the caller's goroutine in Request/Oneway of every FTransport has a timeout alternative derived from the call's FContext: " +
		"each blocking operation is a select with a case on ToContext(fctx).Done() or time.After(fctx.Timeout()), or (HTTP) a client.Do of a request bound to context.WithTimeout(fctx.Timeout()); " +
		"potentially stalling transport I/O runs in a spawned goroutine that sends at most once on its private buffered channel; the timeout edge returns a TIMED_OUT transport exception; the registration is removed on every exit. " +
		"Not decided: wall-clock bounds, library behaviour beyond the stated summaries."
	r := LoadRT(ctx, "", "")
	if !r.OK() {
		return
	}
	ctx.Rule("C13.R1", "bounded waits: every blocking operation on the caller's goroutine in FTransport.Request/Oneway is a select with a timeout case derived from the FContext (or an HTTP round trip bound to a context with that timeout)", 5)
	ctx.Rule("C13.R2", "no stalling I/O on the caller's goroutine; the spawned sender performs at most cap sends on its private result channel", 8)
	ctx.Rule("C13.R3", "the timeout edge returns a transport exception of kind TIMED_OUT", 4)
	c13HTTPErrorIdentity(ctx, r)
	c13PositiveTimeout(ctx, r)
	c13OneBudget(ctx, r)
	c13StableKey(ctx, r)
	ctx.Rule("C13.R7", "a reply cannot overtake its registration: Register dominates the transmission (otherwise a fast reply is dropped and the call reports TIMED_OUT although the peer answered)", 2)
	ctx.Rule("C13.R4", "no registration is left behind (deferred Unregister of the same context on every path after Register)", 3)
	ctx.Assume("http.Client.Do returns, and reads of the response body fail, once the request context is done")
	ctx.Assume("context.WithTimeout(d) is done after d; time.After(d) fires after d")
	ctx.Assume("(*nats.Conn).PublishRequest does not wait for the peer")

	ctx.Rule("C13.R5", "no wait on a long-held mutex before the timeout runs: the caller's goroutine in Request/Oneway never acquires a mutex that some function holds across calls on an external interface (transport Open/Close) or blocking operations", 6)
	longHeld := longHeldLocks(r)
	timedOut := constInt(r, "TRANSPORT_EXCEPTION_TIMED_OUT")
	bi := ssax.ComputeBlocking(r.Fns, r.Resolve)

	// ToContext itself: deadline = fctx.Timeout() on the positive edge
	if tc := r.Fn("C13.R1", "ToContext"); tc != nil {
		ok := false
		for _, c := range ssax.CallsTo(tc, "context.WithTimeout") {
			if isTimeoutOf(c.Common.Args[1], tc.Params[0]) {
				ok = true
			}
		}
		ctx.Check(ok, "C13.R1", "ToContext › deadline is the context's own timeout", fnPos(r, tc),
			"context.WithTimeout(_, fctx.Timeout())", "ToContext does not derive its deadline from fctx.Timeout(): waits selecting on its Done() are not bounded by the call's timeout")
	}

	var entries []*ssa.Function
	entries = append(entries, r.Impl("FTransport", "Request")...)
	entries = append(entries, r.Impl("FTransport", "Oneway")...)
	for _, fn := range entries {
		fname := ssax.Name(fn)
		if len(fn.Params) < 2 {
			continue
		}
		fctx := fn.Params[1]
		nwait := 0
		var visit func(f *ssa.Function, env dEnv, depth int)
		seen := map[*ssa.Function]bool{}
		ev := &dEval{r: r}
		visit = func(f *ssa.Function, env dEnv, depth int) {
			if seen[f] || depth > 3 {
				return
			}
			seen[f] = true
			ssax.Instrs(f, func(in ssa.Instruction) {
				if desc, ok := ssax.Blocking(in); ok {
					nwait++
					sel, isSel := in.(*ssa.Select)
					if !isSel {
						ctx.Violate("C13.R1", fname+" › "+desc+within(f, fn), r.IPos(in),
							"a wait on the caller's goroutine without a timeout alternative: a silent peer blocks the call beyond its FContext timeout")
						return
					}
					found := ""
					tIdx := -1
					for i, st := range sel.States {
						if st.Dir != types.RecvOnly {
							continue
						}
						if how, ok := ev.timeoutChan(st.Chan, env); ok {
							found, tIdx = how, i
						}
					}
					if found == "" {
						ctx.Violate("C13.R1", fname+" › select"+within(f, fn), r.IPos(in),
							"select has no case on ToContext(fctx).Done() / time.After(fctx.Timeout()) of this call's FContext: the wait is not bounded by the call's timeout")
						return
					}
					ctx.Discharge("C13.R1", fname+" › select"+within(f, fn), r.IPos(in), "timeout case "+found)
					// R3: the timeout case returns TIMED_OUT
					body := SelectCaseBlock(sel, tIdx)
					ok := false
					other := ""
					if body != nil {
						for ret, vs := range ReturnedValues(f) {
							if ret.Block() == body || body.Dominates(ret.Block()) {
								this := false
								for _, v := range vs {
									if k, isEx := ExceptionKind(v, "thrift.NewTTransportException"); isEx && k == timedOut {
										ok, this = true, true
									}
								}
								if !this && !nilErrorReturn(ret) {
									other = r.IPos(ret)
								}
							}
						}
					}
					ctx.Check(ok, "C13.R3", fname+" › timeout case result"+within(f, fn), r.IPos(in),
						"returns NewTTransportException(TIMED_OUT)", "the timeout edge does not report TIMED_OUT")
					ctx.Check(other == "", "C13.R3", fname+" › every error leaving the timeout case is TIMED_OUT"+within(f, fn), r.IPos(in),
						"no other error return below the timeout case", "once the timeout has fired the call can still return another error (at "+other+"): depending on the state of the connection at that instant the caller sees e.g. NOT_OPEN instead of TIMED_OUT for a peer that never answered")
					return
				}
				c, ok := ssax.AsCall(in)
				if !ok {
					return
				}
				if _, isGo := in.(*ssa.Go); isGo {
					return
				}
				if _, isDefer := in.(*ssa.Defer); isDefer {
					// deferred Unregister etc. run on this goroutine: must not block
					for _, cal := range r.Resolve(c) {
						if bi.Reach[cal] != nil {
							ctx.Violate("C13.R1", fname+" › deferred "+ssax.Name(cal)+" can block", r.IPos(in), bi.Chain(cal))
						}
					}
					return
				}
				// stalling thrift transport I/O on the caller's goroutine
				if c.Method != nil && (c.Method.Name() == "Write" || c.Method.Name() == "Flush") &&
					ssax.TypeNamed(c.Common.Value.Type(), "thrift", "TTransport") {
					ctx.Violate("C13.R2", fname+" › transport."+c.Method.Name()+" on the caller's goroutine"+within(f, fn), r.IPos(in),
						"a stalled write/flush on the underlying transport blocks the caller beyond its timeout (it must run in the spawned sender)")
				}
				// broker round trips of the NATS client (PING/PONG with the library's own timeout)
				switch c.FullName() {
				case "(*github.com/nats-io/nats.go.Conn).Flush", "(*github.com/nats-io/nats.go.Conn).FlushTimeout", "(*github.com/nats-io/nats.go.Conn).Request",
					"(*github.com/nats-io/nats.go.Conn).RequestWithContext", "(*github.com/nats-io/nats.go.Conn).Drain", "(*github.com/nats-io/nats.go.Subscription).NextMsg":
					ctx.Violate("C13.R2", fname+" › "+c.ShortName()+" round trip on the caller's goroutine"+within(f, fn), r.IPos(in),
						"a broker round trip that is bounded by the client library's own timeout (not the FContext's) runs before the call's timeout is armed: on a stalled link the call returns late and with the library's error instead of TIMED_OUT")
				}
				if c.FullName() == "(*net/http.Client).Do" {
					nwait++
					ok := ev.kind(c.Common.Args[1], env) == dReq
					ctx.Check(ok, "C13.R1", fname+" › HTTP round trip"+within(f, fn), r.IPos(in),
						"client.Do(request.WithContext(context.WithTimeout(_, fctx.Timeout())))", "the HTTP request is not bound to a context carrying the call's timeout")
				}
				for _, cal := range r.Resolve(c) {
					if cal.Pkg != r.Pkg {
						continue
					}
					// follow same-goroutine package calls that take the call's deadline along
					// (the FContext, its timeout, or the context derived from it)
					sub := ev.bind(c, cal, env)
					if len(sub) > 0 {
						visit(cal, sub, depth+1)
					} else if bi.Reach[cal] != nil {
						ctx.Violate("C13.R1", fname+" › call "+ssax.Name(cal)+" can block without the call's timeout", r.IPos(in), bi.Chain(cal))
					}
				}
			})
		}
		nio := 0
		for _, o := range ctx.Obls {
			if o.Rule == "C13.R2" && o.Status == core.Violated && strings.HasPrefix(o.Construct, fname+" › transport.") {
				nio++
			}
		}
		visit(fn, dEnv{fctx: dFCtx}, 0)
		nio2 := 0
		for _, o := range ctx.Obls {
			if o.Rule == "C13.R2" && o.Status == core.Violated && strings.HasPrefix(o.Construct, fname+" › transport.") {
				nio2++
			}
		}
		if nio2 == nio {
			ctx.Discharge("C13.R2", fname+" › no thrift transport I/O on the caller's goroutine", fnPos(r, fn), "Write/Flush of the underlying transport only in spawned goroutines")
		}
		if nwait == 0 {
			ctx.Discharge("C13.R1", fname+" › no wait on the caller's goroutine", fnPos(r, fn), "no blocking channel operation or round trip")
		}
		// HTTP: error of the round trip is mapped to TIMED_OUT somewhere on the error branch
		for _, c := range ssax.Calls(fn) {
			if c.Static != nil && c.Static.Pkg == r.Pkg && len(ssax.CallsTo(c.Static, "(*net/http.Client).Do")) > 0 {
				ok := false
				for _, vs := range ReturnedValues(fn) {
					for _, v := range vs {
						if k, isEx := ExceptionKind(v, "thrift.NewTTransportException"); isEx && k == timedOut {
							ok = true
						}
					}
				}
				ctx.Check(ok, "C13.R3", fname+" › HTTP round-trip error mapped to TIMED_OUT", r.IPos(c.Instr),
					"an error branch returns NewTTransportException(TIMED_OUT)", "a cancelled/timed-out HTTP round trip is no longer reported as TIMED_OUT")
			}
		}
		// R2: spawned senders
		for _, c := range ssax.Calls(fn) {
			g, isGo := c.Instr.(*ssa.Go)
			if !isGo {
				continue
			}
			for _, sp := range r.Resolve(c) {
				// channels passed from this call
				for i, a := range c.Args() {
					mc, ok := ssax.Strip(a).(*ssa.MakeChan)
					if !ok || i >= len(sp.Params) {
						continue
					}
					capN, _ := ssax.ConstInt(mc.Size)
					p := sp.Params[i]
					isSendOnP := func(in ssa.Instruction) bool {
						for _, ss := range SendSites(sp) {
							if ss.Instr == in && ssax.Strip(ss.Chan) == ssa.Value(p) && !ss.NonBlocking {
								return true
							}
						}
						return false
					}
					_, max := ssax.CountOnPaths(sp, nil, isSendOnP)
					ctx.Check(int64(max) <= capN, "C13.R2", fname+" › spawned "+ssax.Name(sp)+" sends ≤ cap on its result channel", r.IPos(g),
						sprintf("at most %d blocking send(s) per path, capacity %d", max, capN),
						sprintf("the spawned sender can perform %d (or more) sends on a channel of capacity %d: after the caller timed out it blocks forever (goroutine leak) or, if unbuffered, stalls", max, capN))
					// the caller waits on that channel only inside the bounded select (covered by R1)
				}
			}
		}
		c01Request(ctx, r, fn, "C13.R4", "C13.R7")
		// R5
		nbad := 0
		for _, g := range ssax.Cone([]*ssa.Function{fn}, r.Resolve, false) {
			for _, c := range ssax.Calls(g) {
				if _, op := ssax.LockOp(c); op != "Lock" && op != "RLock" {
					continue
				}
				if _, isDefer := c.Instr.(*ssa.Defer); isDefer {
					continue
				}
				o, f, _ := lockField(c)
				if why, ok := longHeld[o+"."+f]; ok {
					nbad++
					ctx.Violate("C13.R5", fname+" › acquires "+o+"."+f+within(g, fn), r.IPos(c.Instr),
						"the caller's goroutine waits for a mutex that "+why+": the wait is not covered by the FContext timeout, so a stalled Open/Close of the wrapped transport delays the call beyond its timeout")
				}
			}
		}
		if nbad == 0 {
			ctx.Discharge("C13.R5", fname+" › acquires no long-held mutex on the caller's goroutine", fnPos(r, fn), sprintf("%d long-held mutexes known: %s", len(longHeld), strings.Join(keysOf(longHeld), ", ")))
		}
	}
}

func keysOf(m map[string]string) []string {
	var ks []string
	for k := range m {
		ks = append(ks, k)
	}
	sort.Strings(ks)
	return ks
}

// longHeldLocks: mutexes ("Owner.field") some critical section of which
// contains an invoke on an interface declared outside the package or a
// blocking operation. Value: a description of the witness.
func longHeldLocks(r *RT) map[string]string {
	out := map[string]string{}
	for _, fn := range r.Fns {
		var fields map[string]string // lock key -> Owner.field
		for _, c := range ssax.Calls(fn) {
			if k, op := ssax.LockOp(c); op == "Lock" || op == "RLock" {
				o, f, _ := lockField(c)
				if o != "" {
					if fields == nil {
						fields = map[string]string{}
					}
					fields[k] = o + "." + f
				}
			}
		}
		if fields == nil {
			continue
		}
		locks := ssax.LockSets(fn, nil)
		ssax.Instrs(fn, func(in ssa.Instruction) {
			ls := locks[in]
			if len(ls) == 0 {
				return
			}
			why := ""
			if desc, ok := ssax.Blocking(in); ok {
				why = ssax.Name(fn) + " holds across " + desc
			} else if c, ok := ssax.AsCall(in); ok && c.Method != nil {
				if _, isDefer := in.(*ssa.Defer); !isDefer {
					if n, ok := c.Common.Value.Type().(*types.Named); ok && n.Obj().Pkg() != nil && n.Obj().Pkg() != r.Pkg.Pkg {
						why = ssax.Name(fn) + " holds across " + n.Obj().Name() + "." + c.Method.Name() + "()"
					}
				}
			}
			if why == "" {
				return
			}
			for k := range ls {
				if of, ok := fields[k]; ok {
					if _, seen := out[of]; !seen {
						out[of] = why
					}
				}
			}
		})
	}
	return out
}

func within(f, top *ssa.Function) string {
	if f == top {
		return ""
	}
	return " (in " + ssax.Name(f) + ")"
}

func constInt(r *RT, name string) int64 {
	if c, ok := r.Pkg.Pkg.Scope().Lookup(name).(*types.Const); ok {
		if v, ok := constantInt64(c); ok {
			return v
		}
	}
	return -999999
}

package rules

import (
	"go/types"

	"fv/internal/core"
	"fv/internal/ssax"

	"golang.org/x/tools/go/ssa"
)

// c04ReceivedContext — C04.S8: the reader adds nothing to what was on the
// wire. The request-header map of the context built by ReadRequestHeader
// starts empty, and every entry put into it is a decoded (name, value) pair or
// the receiver's own fresh op id.
func c04ReceivedContext(ctx *core.Ctx, r *RT) {
	ctx.Rule("C04.S8", "the received header map is exactly the decoded one: the reader's context starts with empty header maps and receives only decoded pairs (plus its own op id)", 3)
	rr0 := r.Fn("C04.S8", "(*FProtocol).ReadRequestHeader")
	if rr0 == nil {
		return
	}
	rn := ssax.Name(rr0)
	rr, hdrs := headerConsumer(r, rr0) // the part that builds the context may be an extracted helper
	opid := constString(r, "opIDHeader")
	// the value whose AddRequestHeader is called
	var recvs []ssa.Value
	var adds []ssax.Call
	var calls []ssax.Call
	calls = append(calls, ssax.Calls(rr)...)
	for _, an := range rr.AnonFuncs { // a visitor handed to an iteration helper
		calls = append(calls, ssax.Calls(an)...)
	}
	for _, c := range calls {
		if c.ShortName() == "AddRequestHeader" && len(c.Args()) == 3 {
			adds = append(adds, c)
			v := ssax.Strip(c.Args()[0])
			dup := false
			for _, o := range recvs {
				if o == v {
					dup = true
				}
			}
			if !dup {
				recvs = append(recvs, v)
			}
		}
	}
	if len(recvs) != 1 {
		ctx.Unresolved("C04.S8", rn, sprintf("expected one context receiving the decoded headers, found %d", len(recvs)))
		return
	}
	// where does the context come from: an allocation here, or a constructor of the package
	origin := recvs[0]
	for {
		switch x := origin.(type) {
		case *ssa.TypeAssert:
			origin = ssax.Strip(x.X)
			continue
		case *ssa.MakeInterface:
			origin = ssax.Strip(x.X)
			continue
		case *ssa.ChangeInterface:
			origin = ssax.Strip(x.X)
			continue
		}
		break
	}
	var al *ssa.Alloc
	var ctor *ssa.Function
	var ctorCall *ssa.Call
	switch x := origin.(type) {
	case *ssa.Alloc:
		al = x
	case *ssa.Call:
		if c, ok := ssax.AsCall(x); ok && c.Static != nil && c.Static.Pkg == r.Pkg {
			ctor = c.Static
			ctorCall = x
			for _, vs := range ReturnedValues(ctor) {
				v := ssax.Strip(vs[0])
				if mi, ok := v.(*ssa.MakeInterface); ok {
					v = ssax.Strip(mi.X)
				}
				if a, ok := v.(*ssa.Alloc); ok {
					al = a
				}
			}
		}
	}
	if al == nil {
		ctx.Unresolved("C04.S8", rn, "the context that receives the decoded headers is neither allocated here nor by a constructor of the package")
		return
	}
	where := rn
	host := rr
	if ctor != nil {
		where = rn + " (context built by " + ssax.Name(ctor) + ")"
		host = ctor
	}
	// header-map fields of the allocation: stored value must be an empty make(map)
	for _, field := range []string{"requestHeaders", "responseHeaders"} {
		n, ok, why := 0, true, ""
		for _, u := range *al.Referrers() {
			fa, isFA := u.(*ssa.FieldAddr)
			if !isFA || fieldName(fa) != field {
				continue
			}
			for _, w := range *fa.Referrers() {
				st, isSt := w.(*ssa.Store)
				if !isSt || st.Addr != ssa.Value(fa) {
					continue
				}
				n++
				val := ssax.Strip(st.Val)
				// a constructor that takes the maps as parameters: look at what this call passes
				if pr, isP := val.(*ssa.Parameter); isP && ctorCall != nil {
					for i, cp := range ctor.Params {
						if cp == pr && i < len(ctorCall.Call.Args) {
							val = ssax.Strip(ctorCall.Call.Args[i])
						}
					}
				}
				mm, isMM := val.(*ssa.MakeMap)
				if !isMM {
					ok, why = false, "the map stored at "+r.IPos(st)+" is not a fresh make(map)"
					continue
				}
				for _, mu := range *mm.Referrers() {
					if up, isUp := mu.(*ssa.MapUpdate); isUp {
						ok, why = false, "the map is pre-populated at "+r.IPos(up)+" ("+up.String()+")"
					}
				}
			}
		}
		if n == 0 {
			ok, why = false, "no initialisation of "+field+" found in "+ssax.Name(host)
		}
		ctx.Check(ok, "C04.S8", where+" › "+field+" starts empty", fnPos(r, host), "make(map[string]string) with no entries", "the received context starts with headers that were never on the wire ("+why+"): reading back what was written no longer yields the identical map")
	}
	// every AddRequestHeader in the reader: a decoded pair or the op id
	headers := hdrs
	for _, c := range adds {
		args := c.Args()
		ok := false
		if k, isC := ConstString(args[1]); isC && k == opid {
			ok = true
		}
		ke, ok1 := ssax.Strip(args[1]).(*ssa.Extract)
		ve, ok2 := ssax.Strip(args[2]).(*ssa.Extract)
		if ok1 && ok2 && ke.Tuple == ve.Tuple && ke.Index == 1 && ve.Index == 2 {
			if nx, isN := ke.Tuple.(*ssa.Next); isN {
				if rg, isR := nx.Iter.(*ssa.Range); isR && headers != nil && ssax.Strip(rg.X) == headers {
					ok = true
				}
			}
		}
		if vis := c.Instr.Parent(); !ok && vis != rr && len(vis.Params) == 2 && ssax.Strip(args[1]) == ssa.Value(vis.Params[0]) && ssax.Strip(args[2]) == ssa.Value(vis.Params[1]) {
			ok = visitorFedDecodedPairs(rr, vis, headers)
		}
		ctx.Check(ok, "C04.S8", rn+" › AddRequestHeader("+c.Args()[1].Name()+") adds a decoded pair or the op id", r.IPos(c.Instr), "(name, value) of the decoded map, or _opid", "the reader invents a request header that was not on the wire")
	}
}

func fieldName(fa *ssa.FieldAddr) string {
	t := fa.X.Type().Underlying().(*types.Pointer).Elem().Underlying().(*types.Struct)
	return structFieldName(t, fa.Field)
}

// visitorFedDecodedPairs: the closure vis of host is handed, together with the
// decoded map, to a function of the package whose only calls of it pass the
// (key, value) of a range over that map.
func visitorFedDecodedPairs(host, vis *ssa.Function, headers ssa.Value) bool {
	if headers == nil {
		return false
	}
	fed := false
	for _, c := range ssax.Calls(host) {
		g := c.Static
		if g == nil || g.Pkg != host.Pkg || len(g.Blocks) == 0 {
			continue
		}
		mi, vi := -1, -1
		for i, a := range c.Common.Args {
			if ssax.Strip(a) == headers {
				mi = i
			}
			if mc, ok := ssax.Strip(a).(*ssa.MakeClosure); ok && mc.Fn == ssa.Value(vis) {
				vi = i
			}
		}
		if vi < 0 {
			continue
		}
		if mi < 0 || mi >= len(g.Params) || vi >= len(g.Params) {
			return false
		}
		fp := g.Params[vi]
		if fp.Referrers() == nil {
			return false
		}
		for _, u := range *fp.Referrers() {
			call, ok := u.(*ssa.Call)
			if !ok || call.Call.Value != ssa.Value(fp) || len(call.Call.Args) != 2 {
				if _, isDbg := u.(*ssa.DebugRef); isDbg {
					continue
				}
				return false // the visitor escapes or is called differently
			}
			ke, ok1 := ssax.Strip(call.Call.Args[0]).(*ssa.Extract)
			ve, ok2 := ssax.Strip(call.Call.Args[1]).(*ssa.Extract)
			if !ok1 || !ok2 || ke.Tuple != ve.Tuple || ke.Index != 1 || ve.Index != 2 {
				return false
			}
			nx, isN := ke.Tuple.(*ssa.Next)
			if !isN {
				return false
			}
			rg, isR := nx.Iter.(*ssa.Range)
			if !isR || ssax.Strip(rg.X) != ssa.Value(g.Params[mi]) {
				return false
			}
			fed = true
		}
	}
	return fed
}

// c04ResponseHeadersReachContext — C04.S12: on the response side "reading the
// headers back" ends in the caller's context: ReadResponseHeader hands every
// decoded (name, value) pair except the reserved op id to AddResponseHeader,
// unconditionally (no pair is dropped because the context already has an entry
// of that name, is empty, …).
func c04ResponseHeadersReachContext(ctx *core.Ctx, r *RT) {
	ctx.Rule("C04.S12", "the decoded response-header map reaches the caller's context whole: every pair except _opid is added, whatever the context already holds", 1)
	rh := r.Fn("C04.S12", "(*FProtocol).ReadResponseHeader")
	if rh == nil {
		return
	}
	var headers ssa.Value
	for _, c := range ssax.Calls(rh) {
		if c.Static != nil && c.Static.Pkg == r.Pkg && returnsHeaderMap(c.Static) {
			for _, u := range *c.Instr.Value().Referrers() {
				if e, ok := u.(*ssa.Extract); ok && e.Index == 0 {
					headers = e
				}
			}
		}
	}
	if headers == nil {
		ctx.Unresolved("C04.S12", ssax.Name(rh), "header read not found")
		return
	}
	var dst ssa.Value = rh.Params[len(rh.Params)-1]
	for _, q := range rh.Params {
		if ssax.TypeNamed(q.Type(), "", "FContext") {
			dst = q
		}
	}
	ok, why := rangeCopiesAllBut(rh, headers, "AddResponseHeader", dst, constString(r, "opIDHeader"))
	ctx.Check(ok, "C04.S12", ssax.Name(rh)+" › every decoded pair except _opid is added to the context", fnPos(r, rh), "range over the decoded map, ctx.AddResponseHeader(name, value) unless name == _opid",
		"the map the caller reads back is not the map that was written: "+why)
}

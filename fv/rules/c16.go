package rules

import (
	"go/token"
	"go/types"
	"strings"

	"fv/internal/core"
	"fv/internal/ssax"

	"golang.org/x/tools/go/ssa"
)

// sharedMutableCaptures lists free variables of closure fn that denote
// mutable aggregate storage shared by all invocations of the closure
// (slices, maps, arrays, bytes.Buffer) and are written through in fn.
func sharedMutableCaptures(fn *ssa.Function) []string {
	var out []string
	for _, fv := range fn.FreeVars {
		// captured variables are cells: *T
		pt, ok := fv.Type().(*types.Pointer)
		if !ok {
			continue
		}
		switch pt.Elem().Underlying().(type) {
		case *types.Slice, *types.Map, *types.Array:
		default:
			if !ssax.TypeNamed(pt.Elem(), "bytes", "Buffer") {
				continue
			}
		}
		// is the aggregate written through or handed to a callee inside the closure?
		written := false
		for _, u := range ssax.UsesTransitive(fv) {
			ld, ok := u.(*ssa.UnOp)
			if !ok || ld.Op != token.MUL {
				if _, isStore := u.(*ssa.Store); isStore {
					written = true
				}
				continue
			}
			for _, u2 := range ssax.UsesTransitive(ld) {
				switch x := u2.(type) {
				case *ssa.IndexAddr:
					for _, u3 := range *x.Referrers() {
						if st, ok := u3.(*ssa.Store); ok && st.Addr == ssa.Value(x) {
							written = true
						}
					}
				case *ssa.MapUpdate:
					written = true
				case ssa.CallInstruction:
					c, _ := ssax.AsCall(x)
					if n := c.FullName(); n != "builtin.len" && n != "builtin.cap" {
						written = true // passed to a callee that may write it (ReadFull, PutUint32, Write …)
					}
				case *ssa.Slice:
					written = true
				}
			}
		}
		if written {
			out = append(out, fv.Name())
		}
	}
	return out
}

// C16 — middleware intercepts every call once, in order.
func C16(ctx *core.Ctx) {
	ctx.Explanation = "Decides the runtime structure of middleware composition for all middleware lists: composeMiddleware folds the slice front to back with h = m(h) starting from the reflective invocation handler; Method.AddMiddleware wraps the current handler; Method.Invoke calls the composed handler exactly once with the proxied struct/method and the caller's arguments and returns its results; " +
		"the processor fans AddMiddleware out to every processor function; providers hand out copies of their middleware; Arguments/Results accessors read and write the designated element on every path; the innermost handler allocates its argument and result slices per invocation (no storage shared between calls). " +
		"The generated wiring (provider middleware appended, one NewMethod per operation, public methods dispatch through methods[k].Invoke) is checked over the generator templates by the C03/C16 generator rules when built. Not decided: what a middleware observes at runtime."
	r := LoadRT(ctx, "", "")
	if !r.OK() {
		return
	}
	ctx.Rule("C16.R1", "composition order: fold front to back with h = m(h); AddMiddleware wraps; Invoke calls the composed handler once", 4)
	ctx.Rule("C16.R4", "fan-out and copies: processor applies middleware to every processor function; providers return a copy of their middleware", 4)
	ctx.Rule("C16.R5", "Arguments/Results accessors are total: Context/SetContext use element 0, Error/SetError the last element, on every path", 4)
	ctx.Rule("C16.R6", "per-invocation storage: closures that run once per call write only slices they allocate themselves", 1)
	if cc := LoadCC(ctx); cc.OK() {
		c16ParentTests(ctx, cc)
		ctx.Rule("C16.R9", "the arguments a publisher middleware sees are the caller's, in the caller's order: lists the generators build over the scope's prefix variables (signature, forwarded arguments, Invoke literal) are appended to", 8)
		prefixListOrder(ctx, cc, "C16.R9")
	}
	ctx.Rule("C16.R8", "the error a middleware (or the handler) ends the chain with is what the client observes: kind and message go from SendError to the constructed TApplicationException unchanged", 2)
	errorKindFidelity(ctx, r, "C16.R8")

	// ---- R1 ---------------------------------------------------------------------
	if am := r.Fn("C16.R1", "(*Method).AddMiddleware"); am != nil {
		ok := false
		ssax.Instrs(am, func(in ssa.Instruction) {
			st, isSt := in.(*ssa.Store)
			if !isSt || fieldNameOfAddr(st.Addr) != "handler" {
				return
			}
			c, isC := st.Val.(*ssa.Call)
			if !isC || ssax.Strip(c.Call.Value) != ssa.Value(am.Params[1]) || len(c.Call.Args) != 1 {
				return
			}
			if fieldNameOfValue(c.Call.Args[0]) == "handler" {
				ok = true
			}
		})
		ctx.Check(ok, "C16.R1", "(*Method).AddMiddleware › handler = middleware(handler)", fnPos(r, am), "wraps the current handler", "AddMiddleware does not wrap the current handler: previously installed middleware is dropped or the new one is ignored")
	}
	if inv := r.Fn("C16.R1", "(*Method).Invoke"); inv != nil {
		n := 0
		okArgs := false
		var callV ssa.Value
		for _, c := range ssax.Calls(inv) {
			if fieldNameOfValue(c.Common.Value) == "handler" {
				n++
				callV = c.Instr.Value()
				a := c.Common.Args
				if len(a) == 3 && fieldNameOfValue(a[0]) == "proxiedStruct" && fieldNameOfValue(a[1]) == "proxiedMethod" && IsParam(a[2], inv, 1) {
					okArgs = true
				}
			}
		}
		mn, mx := ssax.CountOnPaths(inv, nil, func(in ssa.Instruction) bool {
			c, ok := ssax.AsCall(in)
			return ok && fieldNameOfValue(c.Common.Value) == "handler"
		})
		okRet := false
		for _, vs := range ReturnedValues(inv) {
			if len(vs) == 1 && callV != nil && ssax.Strip(vs[0]) == callV {
				okRet = true
			}
		}
		ctx.Check(n == 1 && mn == 1 && mx == 1 && okArgs && okRet, "C16.R1", "(*Method).Invoke › composed handler called exactly once with the caller's arguments", fnPos(r, inv), "return m.handler(m.proxiedStruct, m.proxiedMethod, args)", "Invoke does not call the composed handler exactly once with the caller's arguments and return its results")
	}
	if nm := r.Fn("C16.R1", "NewMethod"); nm != nil {
		var mw *ssa.Parameter
		for _, p := range nm.Params {
			if _, isSl := p.Type().Underlying().(*types.Slice); isSl {
				mw = p
			}
		}
		// what NewMethod stores in the handler field of the Method it builds
		var stored ssa.Value
		var alloc ssa.Value
		ssax.Instrs(nm, func(in ssa.Instruction) {
			if st, isSt := in.(*ssa.Store); isSt && fieldNameOfAddr(st.Addr) == "handler" {
				stored = st.Val
				if fa, isFA := st.Addr.(*ssa.FieldAddr); isFA {
					alloc = ssax.Strip(fa.X)
				}
			}
		})
		isBase := func(v ssa.Value, method ssa.Value) bool {
			ic, ok := CallValue(v)
			return ok && ic.Static != nil && ic.Static.Pkg == r.Pkg && ssax.TypeNamed(ic.Static.Signature.Results().At(0).Type(), "", "InvocationHandler") &&
				len(ic.Common.Args) == 1 && (method == nil || ssax.Strip(ic.Common.Args[0]) == ssax.Strip(method))
		}
		// fold: h = φ(base(method), S[i](h)) with i ascending over the whole of S
		foldOf := func(v ssa.Value, S ssa.Value, method ssa.Value) bool {
			phi, isPhi := v.(*ssa.Phi)
			if !isPhi || len(phi.Edges) != 2 {
				return false
			}
			var init, step ssa.Value
			for i, e := range phi.Edges {
				if phi.Block().Dominates(phi.Block().Preds[i]) {
					step = e
				} else {
					init = e
				}
			}
			sc, isStep := step.(*ssa.Call)
			if !isStep || !isBase(init, method) || len(sc.Call.Args) != 1 || sc.Call.Args[0] != ssa.Value(phi) {
				return false
			}
			ld, isLd := sc.Call.Value.(*ssa.UnOp)
			if !isLd {
				return false
			}
			ia, isIA := ld.X.(*ssa.IndexAddr)
			return isIA && ssax.Strip(ia.X) == S && ascendingWholeSlice(ia.Index, S)
		}
		ok, how := false, ""
		detail := "NewMethod does not install the composed middleware chain"
		switch {
		case stored == nil || mw == nil:
		case foldOf(stored, mw, nil):
			ok, how = true, "handler = φ(base, middleware[i](handler)) folded in NewMethod itself"
		default:
			if c, isCall := CallValue(stored); isCall && c.Static != nil && c.Static.Pkg == r.Pkg && len(c.Static.Blocks) > 0 {
				// (a) a fold helper that is handed the middleware slice
				cm := c.Static
				var S, method ssa.Value
				for i, a := range c.Common.Args {
					if ssax.Strip(a) == ssa.Value(mw) && i < len(cm.Params) {
						S = cm.Params[i]
					} else if i < len(cm.Params) {
						method = cm.Params[i]
					}
				}
				if S != nil {
					for _, vs := range ReturnedValues(cm) {
						if len(vs) == 1 && foldOf(vs[0], S, method) {
							ok, how = true, "handler = "+cm.Name()+"(method, middleware): φ(base(method), middleware[i](handler)), i ascending over the whole slice"
						}
					}
					if !ok {
						detail = cm.Name() + " is not the front-to-back fold h = m_i(h) over the whole slice starting from the base handler: the nesting order of middleware changes (later-listed no longer wraps earlier) or some are skipped"
					}
				} else if isBase(stored, nil) && alloc != nil {
					// (b) the Method is built around the base handler and every middleware is added in order
					am := r.FnOpt("(*Method).AddMiddleware")
					for _, c2 := range ssax.Calls(nm) {
						if am == nil || c2.Static != am || len(c2.Common.Args) != 2 || ssax.Strip(c2.Common.Args[0]) != alloc {
							continue
						}
						ld, isLd := ssax.Strip(c2.Common.Args[1]).(*ssa.UnOp)
						if !isLd {
							continue
						}
						ia, isIA := ld.X.(*ssa.IndexAddr)
						if !isIA || ssax.Strip(ia.X) != ssa.Value(mw) || !ascendingWholeSlice(ia.Index, mw) {
							continue
						}
						// on every trip: from the element load, no way back to it or out without the call
						ci := c2.Instr.(ssa.Instruction)
						again := func(in ssa.Instruction) bool { return in == ssa.Instruction(ld) || ssax.IsReturn(in) }
						if ssax.Dominates(ld, ci) && ssax.PathFrom(nm, ld, again, func(in ssa.Instruction) bool { return in == ci }) == nil {
							ok, how = true, "Method built around the base handler, then AddMiddleware(middleware[i]) for i ascending over the whole slice, on every trip"
						}
					}
				}
			}
		}
		ctx.Check(ok, "C16.R1", "NewMethod › handler = composition of the middleware it was given, front to back", fnPos(r, nm), how, detail)
	}

	// ---- R4 ---------------------------------------------------------------------
	if pa := r.Fn("C16.R4", "(*FBaseProcessor).AddMiddleware"); pa != nil {
		ok := false
		for _, c := range ssax.Calls(pa) {
			if c.Method != nil && c.Method.Name() == "AddMiddleware" && inCycle(c.Instr.(ssa.Instruction)) && IsParam(c.Common.Args[0], pa, 1) {
				if ex, isEx := c.Common.Value.(*ssa.Extract); isEx && ex.Index == 2 {
					if nx, isN := ex.Tuple.(*ssa.Next); isN {
						if rg, isR := nx.Iter.(*ssa.Range); isR && fieldNameOfValue(rg.X) == "processMap" {
							// unconditional: the loop is reached on every path (no return before it) and
							// every trip through the body makes the call
							ok = true
							for ret := range ReturnedValues(pa) {
								if !ssax.Dominates(rg, ret) {
									ok = false
								}
							}
							var first ssa.Instruction
							for _, u := range *nx.Referrers() {
								if e0, isE := u.(*ssa.Extract); isE && e0.Index == 0 {
									for _, w := range *e0.Referrers() {
										if iff, isIf := w.(*ssa.If); isIf && len(iff.Block().Succs[0].Instrs) > 0 {
											first = iff.Block().Succs[0].Instrs[0]
										}
									}
								}
							}
							isCall := func(in ssa.Instruction) bool { return in == c.Instr }
							isNext := func(in ssa.Instruction) bool { return in == ssa.Instruction(nx) || ssax.IsReturn(in) }
							if first == nil || (!isCall(first) && ssax.PathFrom(pa, first, isNext, isCall) != nil) {
								ok = false
							}
						}
					}
				}
			}
		}
		ctx.Check(ok, "C16.R4", "(*FBaseProcessor).AddMiddleware › applied to every processor function", fnPos(r, pa), "for _, p := range processMap { p.AddMiddleware(m) }, unconditionally", "processor middleware is not applied to every method's processor function on every path (a middleware can be skipped: it never intercepts any call)")
	}
	if fa := r.Fn("C16.R4", "(*FBaseProcessorFunction).AddMiddleware"); fa != nil {
		ok := false
		for _, c := range ssax.Calls(fa) {
			if c.Static != nil && ssax.Name(c.Static) == "(*Method).AddMiddleware" && fieldNameOfValue(c.Common.Args[0]) == "handler" && IsParam(c.Common.Args[1], fa, 1) {
				ok = true
			}
		}
		ctx.Check(ok, "C16.R4", "(*FBaseProcessorFunction).AddMiddleware › forwards to its Method", fnPos(r, fa), "f.handler.AddMiddleware(m)", "processor function drops the middleware")
	}
	for _, name := range []string{"(*FScopeProvider).GetMiddleware", "(*FServiceProvider).GetMiddleware"} {
		if gm := r.Fn("C16.R4", name); gm != nil {
			ok := false
			for _, vs := range ReturnedValues(gm) {
				// the copy may be made by a helper of the package applied to the provider's field
				if hc, isC := CallValue(vs[0]); isC && hc.Static != nil {
					if pi := sliceCopierParam(hc.Static); pi >= 0 && pi < len(hc.Common.Args) && fieldNameOfValue(hc.Common.Args[pi]) == "middleware" {
						ok = true
					}
				}
				if mk, isMk := ssax.Strip(vs[0]).(*ssa.MakeSlice); isMk {
					for _, c := range ssax.CallsTo(gm, "builtin.copy") {
						if ssax.Strip(c.Common.Args[0]) == ssa.Value(mk) && fieldNameOfValue(c.Common.Args[1]) == "middleware" {
							if lc, isL := CallValue(mk.Len); isL && lc.FullName() == "builtin.len" && fieldNameOfValue(lc.Common.Args[0]) == "middleware" {
								ok = true
							}
						}
					}
				}
			}
			ctx.Check(ok, "C16.R4", name+" › returns a full copy of the provider's middleware", fnPos(r, gm), "make(len) + copy", "GetMiddleware hands out the provider's own slice (generated constructors append to it) or drops entries")
		}
	}

	// ---- R5 ---------------------------------------------------------------------
	lastIdx := func(fn *ssa.Function, ia *ssa.IndexAddr) bool {
		bo, ok := ia.Index.(*ssa.BinOp)
		if !ok || bo.Op != token.SUB {
			return false
		}
		one, _ := ssax.ConstInt(bo.Y)
		lc, isL := CallValue(bo.X)
		return one == 1 && isL && lc.FullName() == "builtin.len" && IsParam(lc.Common.Args[0], fn, 0)
	}
	if se := r.Fn("C16.R5", "(Results).SetError"); se != nil {
		isStore := func(in ssa.Instruction) bool {
			st, ok := in.(*ssa.Store)
			if !ok {
				return false
			}
			ia, ok := st.Addr.(*ssa.IndexAddr)
			if !ok || !IsParam(ia.X, se, 0) || !lastIdx(se, ia) {
				return false
			}
			return ssax.Strip(st.Val) == ssa.Value(se.Params[1])
		}
		bad := false
		ssax.Instrs(se, func(in ssa.Instruction) {
			ret, ok := in.(*ssa.Return)
			if !ok {
				return
			}
			isThis := func(x ssa.Instruction) bool { return x == ssa.Instruction(ret) }
			if p := ssax.PathFrom(se, nil, isThis, isStore); p != nil {
				// allowed only on the len(r) == 0 edge
				okEdge := false
				for _, b := range se.Blocks {
					iff, isIf := b.Instrs[len(b.Instrs)-1].(*ssa.If)
					if !isIf {
						continue
					}
					bo, isB := iff.Cond.(*ssa.BinOp)
					if !isB || bo.Op != token.EQL {
						continue
					}
					lc, isL := CallValue(bo.X)
					z, isZ := ssax.ConstInt(bo.Y)
					if isL && isZ && z == 0 && lc.FullName() == "builtin.len" {
						t := b.Succs[0]
						if (t == ret.Block() || t.Dominates(ret.Block())) && len(t.Preds) == 1 {
							okEdge = true
						}
					}
				}
				if !okEdge {
					bad = true
				}
			}
		})
		ctx.Check(!bad, "C16.R5", "(Results).SetError › stores the given error into the last result on every path", fnPos(r, se), "r[len(r)-1] = err unconditionally (or only skipped for empty results)", "SetError can return without storing the error it was given (e.g. ignores nil): a middleware that clears or rewrites the error is not observed by the other side")
	}
	if ge := r.Fn("C16.R5", "(Results).Error"); ge != nil {
		ok := true
		n := 0
		ssax.Instrs(ge, func(in ssa.Instruction) {
			if ia, isIA := in.(*ssa.IndexAddr); isIA {
				n++
				if !IsParam(ia.X, ge, 0) || !lastIdx(ge, ia) {
					ok = false
				}
			}
		})
		ctx.Check(ok && n > 0, "C16.R5", "(Results).Error › reads the last result", fnPos(r, ge), "r[len(r)-1]", "Error() does not read the last result element")
	}
	for _, name := range []string{"(Arguments).Context", "(Arguments).SetContext"} {
		if fn := r.Fn("C16.R5", name); fn != nil {
			ok := true
			n := 0
			ssax.Instrs(fn, func(in ssa.Instruction) {
				if ia, isIA := in.(*ssa.IndexAddr); isIA {
					n++
					z, isZ := ssax.ConstInt(ia.Index)
					if !IsParam(ia.X, fn, 0) || !isZ || z != 0 {
						ok = false
					}
				}
			})
			if name == "(Arguments).SetContext" {
				stored := false
				ssax.Instrs(fn, func(in ssa.Instruction) {
					if st, isSt := in.(*ssa.Store); isSt {
						if _, isIA := st.Addr.(*ssa.IndexAddr); isIA && ssax.Strip(st.Val) == ssa.Value(fn.Params[1]) {
							stored = true
						}
					}
				})
				ok = ok && stored
			}
			ctx.Check(ok && n > 0, "C16.R5", name+" › uses argument 0", fnPos(r, fn), "a[0]", "the FContext accessor does not use argument 0")
		}
	}

	// ---- R6 ---------------------------------------------------------------------
	if nih := r.Fn("C16.R6", "newInvocationHandler"); nih != nil {
		// the innermost handler: the closure(s) or the bound method newInvocationHandler returns
		var bodies []*ssa.Function
		for _, vs := range ReturnedValues(nih) {
			for _, v := range vs {
				bodies = append(bodies, funcValues(ssax.Strip(v))...)
			}
		}
		for _, cl := range bodies {
			bad := sharedMutableCaptures(cl)
			// every IndexAddr store target / returned slice is a MakeSlice of this closure or a parameter
			ssax.Instrs(cl, func(in ssa.Instruction) {
				if st, isSt := in.(*ssa.Store); isSt {
					if ia, isIA := st.Addr.(*ssa.IndexAddr); isIA {
						base := ssax.Strip(ia.X)
						switch b := base.(type) {
						case *ssa.MakeSlice, *ssa.Parameter:
						default:
							bad = append(bad, "store into "+ssax.AddrKey(b))
						}
					}
				}
			})
			for _, vs := range ReturnedValues(cl) {
				for _, v := range vs {
					if _, isSl := v.Type().Underlying().(*types.Slice); isSl {
						_, isMk := ssax.Strip(v).(*ssa.MakeSlice)
						if hc, isC := CallValue(v); isC && hc.Static != nil && hc.Static.Pkg == r.Pkg && returnsFreshSlice(hc.Static) {
							isMk = true // built by a helper that returns a slice it makes itself
						}
						if !isMk {
							bad = append(bad, "returns "+ssax.AddrKey(ssax.Strip(v)))
						}
					}
				}
			}
			ctx.Check(len(bad) == 0, "C16.R6", ssax.Name(cl)+" › argument/result slices are allocated per invocation", fnPos(r, cl), "make inside the closure", sprintf("the per-call handler writes storage shared by all calls of the method (%v): overlapping calls, or a middleware that keeps the results of one call, see another call's values", bad))
			// the results the chain sees are exactly what the handler returned: each element of the returned
			// slice is the Interface() of a return value, nothing rewrites or inspects them afterwards
			var resSlice ssa.Value
			for _, vs := range ReturnedValues(cl) {
				for _, v := range vs {
					if _, isSl := v.Type().Underlying().(*types.Slice); isSl {
						resSlice = ssax.Strip(v)
					}
				}
			}
			if resSlice != nil {
				odd := ""
				ssax.Instrs(cl, func(in ssa.Instruction) {
					st, isSt := in.(*ssa.Store)
					if !isSt {
						return
					}
					ia, isIA := st.Addr.(*ssa.IndexAddr)
					if !isIA || ssax.Strip(ia.X) != resSlice {
						return
					}
					v := ssax.Strip(st.Val)
					if c, isC := CallValue(v); !isC || c.FullName() != "(reflect.Value).Interface" {
						odd = r.IPos(in) + ": " + st.String()
					}
				})
				// reflection on the results after the call (Value.IsNil & co. panic for value kinds,
				// and a "nil" test rewrites typed nils) — in the handler or in helpers it converts with
				for _, g := range localCone(cl, 2) {
					if g != cl && (g.Object() == nil || g.Object().Exported()) {
						continue
					}
					for _, c := range ssax.Calls(g) {
						switch c.FullName() {
						case "(reflect.Value).IsNil", "(reflect.Value).Elem", "(reflect.Value).Pointer", "(reflect.Value).IsZero", "(reflect.Value).Kind":
							odd = r.IPos(c.Instr) + ": " + c.FullName() + " on a result"
						}
					}
				}
				ctx.Check(odd == "", "C16.R6", ssax.Name(cl)+" › results are handed on exactly as the handler returned them", fnPos(r, cl), "results[i] = returnValues[i].Interface() and nothing else",
					"the innermost handler rewrites or inspects the results after the real handler ran ("+odd+"): a handler error of a value kind makes reflect panic after the handler's effects happened, or an error is turned into success — no middleware sees what the handler returned")
			}
		}
	}
}

// sliceCopierParam: if fn returns make(T, len(p)) filled by copy(_, p) for one
// of its slice parameters p on every path, the index of p; otherwise -1.
func sliceCopierParam(fn *ssa.Function) int {
	if fn == nil || len(fn.Blocks) == 0 {
		return -1
	}
	idx := -1
	for _, vs := range ReturnedValues(fn) {
		if len(vs) != 1 {
			return -1
		}
		mk, ok := ssax.Strip(vs[0]).(*ssa.MakeSlice)
		if !ok {
			return -1
		}
		lc, ok := CallValue(mk.Len)
		if !ok || lc.FullName() != "builtin.len" {
			return -1
		}
		found := -1
		for i, p := range fn.Params {
			if ssax.Strip(lc.Common.Args[0]) == ssa.Value(p) {
				for _, c := range ssax.CallsTo(fn, "builtin.copy") {
					if ssax.Strip(c.Common.Args[0]) == ssa.Value(mk) && ssax.Strip(c.Common.Args[1]) == ssa.Value(p) {
						found = i
					}
				}
			}
		}
		if found < 0 || (idx >= 0 && idx != found) {
			return -1
		}
		idx = found
	}
	return idx
}

// ascendingWholeSlice: idx runs 0,1,…,len(S)-1 — the index of an index loop
// (i = φ(0, i+1), guard i < len(S)) or of a range loop (idx = φidx+1, φidx =
// φ(-1, idx), guard idx < len(S)).
func ascendingWholeSlice(idx ssa.Value, S ssa.Value) bool {
	lenOfS := func(v ssa.Value) bool {
		lc, isL := CallValue(v)
		return isL && lc.FullName() == "builtin.len" && ssax.Strip(lc.Common.Args[0]) == ssax.Strip(S)
	}
	if ip2, isP := idx.(*ssa.Phi); isP {
		zero, inc := false, false
		for _, e := range ip2.Edges {
			if k, isK := ssax.ConstInt(e); isK && k == 0 {
				zero = true
			} else if a2, isA := e.(*ssa.BinOp); isA && a2.Op == token.ADD && a2.X == ssa.Value(ip2) {
				if o, isO := ssax.ConstInt(a2.Y); isO && o == 1 {
					inc = true
				}
			}
		}
		guard := false
		for _, u := range *ip2.Referrers() {
			if bo, isB := u.(*ssa.BinOp); isB && bo.Op == token.LSS && bo.X == ssa.Value(ip2) && lenOfS(bo.Y) {
				guard = true
			}
		}
		return zero && inc && guard && len(ip2.Edges) == 2
	}
	add, isAdd := idx.(*ssa.BinOp)
	if !isAdd || add.Op != token.ADD {
		return false
	}
	one, _ := ssax.ConstInt(add.Y)
	ip, isIP := add.X.(*ssa.Phi)
	if !isIP || one != 1 {
		return false
	}
	startOK := false
	for _, e := range ip.Edges {
		if k, isK := ssax.ConstInt(e); isK && k == -1 {
			startOK = true
		}
	}
	guardOK := false
	for _, u := range *add.Referrers() {
		if bo, isB := u.(*ssa.BinOp); isB && bo.Op == token.LSS && bo.X == ssa.Value(add) && lenOfS(bo.Y) {
			guardOK = true
		}
	}
	return startOK && guardOK
}

// c16ParentTests — C16.R7. Service.ExtendsInclude() is the include qualifier
// of the parent's name ("" for a parent declared in the same file); whether a
// service *has* a parent is Service.Extends != "". A generator branch taken on
// ExtendsInclude() != "" may only do what concerns the include (qualify or
// import the parent through it). Used as the "has a parent" test it skips
// same-file parents: the generated derived processor then does not forward
// addMiddleware to its parent, whose handlers run without the middleware.
func c16ParentTests(ctx *core.Ctx, cc *CC) {
	ctx.Rule("C16.R7", "\"has a parent\" is Service.Extends: a generator branch on ExtendsInclude() only qualifies or imports the parent through the include", 1)
	n := 0
	for _, fn := range cc.Fns {
		if fn.Pkg == nil || !strings.Contains(fn.Pkg.Pkg.Path(), "/compiler/generator") {
			continue
		}
		isEI := func(v ssa.Value) bool {
			c, ok := CallValue(v)
			return ok && c.Static != nil && c.Static.Name() == "ExtendsInclude"
		}
		for _, b := range fn.Blocks {
			iff, ok := b.Instrs[len(b.Instrs)-1].(*ssa.If)
			if !ok {
				continue
			}
			bo, ok := iff.Cond.(*ssa.BinOp)
			if !ok || (bo.Op != token.NEQ && bo.Op != token.EQL) {
				continue
			}
			var ei ssa.Value
			switch {
			case isEI(bo.X):
				ei = bo.X
			case isEI(bo.Y):
				ei = bo.Y
			default:
				continue
			}
			if s, isS := ConstString(bo.X); !(isS && s == "") {
				if s2, isS2 := ConstString(bo.Y); !(isS2 && s2 == "") {
					continue
				}
			}
			n++
			region := b.Succs[0] // non-empty include
			if bo.Op == token.EQL {
				region = b.Succs[1]
			}
			// the region uses the include (this value or another ExtendsInclude() result) for something
			uses := false
			for _, rb := range fn.Blocks {
				if !(rb == region || region.Dominates(rb)) || len(region.Preds) != 1 {
					continue
				}
				for _, in := range rb.Instrs {
					for _, op := range in.Operands(nil) {
						if *op == nil {
							continue
						}
						if ssax.Strip(*op) == ssax.Strip(ei) || isEI(*op) {
							if _, isBin := in.(*ssa.BinOp); isBin && in == ssa.Instruction(bo) {
								continue
							}
							uses = true
						}
					}
					if c, isC := in.(*ssa.Call); isC && isEI(c) {
						uses = true
					}
				}
			}
			ctx.Check(uses, "C16.R7", QName(fn)+sprintf(" › branch #%d on ExtendsInclude() concerns the include", n), cc.IPos(iff), "the branch qualifies/imports the parent through the include value",
				"the branch taken when ExtendsInclude() is non-empty never uses the include: it stands in for 'the service has a parent', which is false for a parent declared in the same file — what it emits (e.g. the forwarding of addMiddleware to the parent processor) is missing for same-file inheritance, so inherited methods run without the middleware")
		}
	}
	if n == 0 {
		ctx.Discharge("C16.R7", "generators › no branch on ExtendsInclude()", "", "nothing to check")
	}
}

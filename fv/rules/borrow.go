package rules

import "fv/internal/core"

// Shared necessary conditions. A mechanism is implemented once, under the
// property that owns it; where the same mechanism is also a necessary
// condition of another property (a seeded change "for" that property broke it
// and was reported by the owner's check only), the other property's check runs
// the owner's rule too and reports it under an id of its own. The table is the
// complete list; each line says why the borrowed rule is a necessary condition
// of the borrowing property.
type sharedRule struct {
	from []func(*core.Ctx)
	take []string // rule ids of the owner
	id   string   // id under the borrowing property
	min  int
	doc  string
}

var shared = map[string][]sharedRule{
	"C01": {
		{[]func(*core.Ctx){C17}, []string{"C17.R1"}, "C01.R14", 2, "two in-flight requests never share an op id (decided by C17.R1): the op-id counter is only touched by one atomic 64-bit add whose result is the id"},
		{[]func(*core.Ctx){C09}, []string{"C09.R3"}, "C01.R12", 3, "the reply's _opid never reaches the caller's context (decided by C09.R3): a context that took over a reply's op id registers its next request under an id another call may hold"},
		{[]func(*core.Ctx){C06}, []string{"C06.R1"}, "C01.R13", 3, "frames for unknown, late or duplicate op ids are dropped without waiting (decided by C06.R1): a blocking hand-over makes a duplicate response stall the delivery of every other caller's response"},
	},
	"C03": {
		{[]func(*core.Ctx){C02}, []string{"C02.R3"}, "C03.R20", 9, "arguments and results are encoded as their declared type (decided by C02.R3): every runtime field writer announces and writes the same wire type"},
		{[]func(*core.Ctx){C20}, []string{"C20.R4"}, "C03.R21", 2, "a request accepted by the NATS server reaches a worker (decided by C20.R4): the subscription handler enqueues with a plain back-pressure send, no drop and no timeout"},
		{[]func(*core.Ctx){C15}, []string{"C15.R2"}, "C03.R17", 2, "a reply is decoded by a frame decoder of the connection it arrived on (decided by C15.R2): a decoder kept across a re-open continues in the middle of the old connection's frame"},
		{[]func(*core.Ctx){C14}, []string{"C14.R1"}, "C03.R18", 7, "the outcome is written under the processor's write mutex and the mutex is released on every exit (decided by C14.R1): otherwise the reply of one call is interleaved with, or blocks, another's"},
	},
	"C05": {
		{[]func(*core.Ctx){C15}, []string{"C15.R10"}, "C05.R15", 1, "hostile input is reported, not mistaken for a hang-up (decided by C15.R10): the reader loop treats only END_OF_FILE as a clean close — an oversized frame header (a transport exception of another kind) closes the connection WITH its cause, so the monitor reopens it"},
		{[]func(*core.Ctx){C07}, []string{"C07.R11"}, "C05.R13", 1, "a STOMP message is acknowledged off the consuming goroutine (decided by C07.R11): a synchronous Ack under back-pressure wedges the subscriber on input alone"},
	},
	"C06": {
		{[]func(*core.Ctx){C13}, []string{"C13.R5"}, "C06.R10", 2, "no caller-side wait on a mutex held across I/O (decided by C13.R5): one slow or stalled caller must not stall the others"},
	},
	"C04": {
		{[]func(*core.Ctx){C05}, []string{"C05.R2", "C05.R3"}, "C04.S15", 20, "reading a header block never reads or allocates outside it (decided by C05.R2/R3): every slice bound and allocation size of the decoders is proved from the guards in machine arithmetic — a chunked reader that asks for more than the block holds, or a version byte taken from the wrong offset, is reported"},
	},
	"C09": {
		{[]func(*core.Ctx){C12}, []string{"C12.R17"}, "C09.R15", 2, "a reply the server sent reaches the caller's context (decided by C12.R17): the client discards a response as too large only on the server's own verdict"},
		{[]func(*core.Ctx){C04}, []string{"C04.S9"}, "C09.R14", 1, "a large header set reaches the handler over stream transports (decided by C04.S9): header blocks are read with io.ReadFull, a short read is not a truncated block"},
		{[]func(*core.Ctx){C04}, []string{"C04.S6", "C04.S4"}, "C09.R10", 14, "the header codec the context travels through is exact (decided by C04.S4/S6): every reject guard of the pair decoder rejects only blocks whose next read would not fit, and prefix/payload offsets of encoder and decoder agree — a header with an empty value, or one serialised last, is never lost or refused"},
		{[]func(*core.Ctx){C17}, []string{"C17.R2", "C17.R3", "C17.R4", "C17.R5"}, "C09.R11", 20, "the context object itself keeps its headers apart (decided by C17.R2–R5): guarded maps, no escaping map, fresh op id per context, deep Clone — a clone or a concurrent reader must not see or change the headers of the request in flight"},
		{[]func(*core.Ctx){C01}, []string{"C01.R1", "C01.R3"}, "C09.R13", 4, "a reply reaches the context that issued its request (decided by C01.R1/R3): frames are handed over only under their own _opid, so the response headers merged into a context are those of its own handler"},
		{[]func(*core.Ctx){C03}, []string{"C03.R4", "C03.R5"}, "C09.R12", 6, "request and reply are complete messages in protocol order and an unknown method's arguments are consumed (decided by C03.R4/R5): the response header is read where it was written"},
	},
	"C02": {
		{[]func(*core.Ctx){C10}, []string{"C10.R10"}, "C02.R19", 2, "every union member is optional whatever the IDL spells (decided by C10.R10): the parser's override of the members' modifier is unconditional, otherwise a `required` member makes the generated union unreadable/uncompilable"},
		{[]func(*core.Ctx){C10}, []string{"C10.R8"}, "C02.R18", 2, "a type is generated from the file that declares it (decided by C10.R8): the parse cache is keyed by the opened path and lives for one run"},
	},
	"C11": {
		{[]func(*core.Ctx){C10}, []string{"C10.R13"}, "C11.R24", 2, "a prefix variable that is not an identifier is refused with a diagnostic (decided by C10.R13): the validating regular expression accepts no name that starts with a digit, so no generator emits one as a parameter name"},
		{[]func(*core.Ctx){C10}, []string{"C10.R8"}, "C11.R23", 2, "valid multi-file IDL is not rejected for a file it never included (decided by C10.R8): the parse cache is keyed by the opened path"},
	},
	"C12": {
		{[]func(*core.Ctx){C02}, []string{"C02.R3"}, "C12.R15", 9, "a too-large error raised while a field is written reaches the client/processor as the transport exception it is (decided by C02.R3): every runtime field writer hands the protocol's error on through thrift.PrependError, which keeps its type"},
	},
	"C18": {
		{[]func(*core.Ctx){C02}, []string{"C02.R20"}, "C18.R11", 1, "both sides of a type comparison are fully resolved names (decided by C02.R20): a container typedef of an include resolves to element types named relative to the audited file, whatever their kind"},
		{[]func(*core.Ctx){C11}, []string{"C11.R20"}, "C18.R10", 1, "a breaking change in any audited file fails the run (decided by C11.R20): inside the loop over the command-line files the error of each Audit ends the process non-zero before the next file overwrites it"},
	},
	"C20": {
		{[]func(*core.Ctx){C14}, []string{"C14.R1"}, "C20.R8", 7, "a worker never blocks for ever on the processor's write mutex (decided by C14.R1): held-at-call, released on every exit, never re-acquired by a callee — otherwise Serve's wg.Wait and Stop never return"},
	},
	"C07": {
		{[]func(*core.Ctx){C03}, []string{"C03.R9"}, "C07.R19", 1, "each delivery runs the handler with its own arguments (decided by C03.R9): the invocation handler behind every generated subscriber callback keeps no argument or result storage across invocations, so two workers cannot hand one message's payload to the handler under another message's context"},
		{[]func(*core.Ctx){C05}, []string{"C05.R2", "C05.R3"}, "C07.R20", 20, "a malformed message is discarded, not fatal (decided by C05.R2/R3): every index, slice and allocation size on the subscriber's decode path is proved in range in machine arithmetic"},
		{[]func(*core.Ctx){C08}, []string{"C08.R1"}, "C07.R18", 4, "a subscriber listens where the publisher of the same operation publishes (decided by C08.R1): publisher and subscriber topic expressions of a generator are the same function of prefix, scope, delimiter and operation"},
		{[]func(*core.Ctx){C04}, []string{"C04.S6"}, "C07.R17", 4, "a published message is not discarded for its (valid) headers (decided by C04.S6): the pair decoder rejects only blocks whose next read would not fit"},
	},
	"C10": {
		{[]func(*core.Ctx){C11}, []string{"C11.R9"}, "C10.R21", 2, "a type written through a typedef is the type it aliases wherever the model is asked what kind it is (decided by C11.R9): every func(*Type) bool predicate that consults the declaration lists resolves typedefs — otherwise valid IDL (`throws` naming an alias of an exception) is rejected"},
		{[]func(*core.Ctx){C11}, []string{"C11.R5"}, "C10.R17", 1, "the typedef-cycle search uses path discipline (decided by C11.R5): a DAG of typedefs — valid IDL — is not rejected as a cycle"},
	},
	"C14": {
		{[]func(*core.Ctx){C03}, []string{"C03.R7"}, "C14.R17", 2, "a request larger than one buffered read is still one request (decided by C03.R7): the framed reader's remaining-frame counter decreases by the bytes actually read, so the next request on the connection starts at a frame boundary"},
		{[]func(*core.Ctx){C01}, []string{"C01.R9"}, "C14.R15", 4, "every op id a client may send is answered (decided by C01.R9): op ids are read as unsigned 64-bit decimal text everywhere — a server that parses them as a signed int refuses valid requests with ids from 2^63 and never replies"},
		{[]func(*core.Ctx){C12}, []string{"C12.R1", "C12.R10"}, "C14.R14", 4, "the RESPONSE_TOO_LARGE reply is written into an emptied buffer (decided by C12.R1/R10): every appending method of the bounded buffer resets on rejection, otherwise the truncated reply and the exception go out as one corrupt frame"},
		{[]func(*core.Ctx){C03, C16}, []string{"C03.R9", "C16.R6"}, "C14.R13", 2, "the reply is built from this invocation's own results (decided by C03.R9/C16.R6): the invocation handler behind every generated processor function keeps no storage across invocations, so two overlapping requests for one method cannot answer with each other's return value"},
	},
	"C16": {
		{[]func(*core.Ctx){C09}, []string{"C09.R1", "C09.R2"}, "C16.R14", 6, "headers a middleware adds travel with the call in both directions (decided by C09.R1/R2): every reply — error replies included — is written with the response headers of the request's context, and the server copies every received request header except _opid into the context it builds"},
		{[]func(*core.Ctx){C12}, []string{"C12.R4"}, "C16.R13", 4, "the outcome the caller's middleware observes is the kind the server reported (decided by C12.R4): only the RESPONSE_TOO_LARGE application exception is turned into that transport exception"},
		{[]func(*core.Ctx){C09}, []string{"C09.R3"}, "C16.R12", 3, "what a server middleware sets on the response headers is what the client middleware observes after next (decided by C09.R3): every reply header except _opid is merged into the caller's context whatever it already holds"},
		{[]func(*core.Ctx){C03}, []string{"C03.R3"}, "C16.R10", 4, "the outcome of the call comes back through the middleware chain (decided by C03.R3): every declared exception is emitted on every non-oneway path of the generated client/processor"},
		{[]func(*core.Ctx){C07}, []string{"C07.R4"}, "C16.R11", 1, "a failed handler invocation is observable as a failure (decided by C07.R4): the STOMP subscriber acknowledges only on the nil edge of the callback"},
	},
}

// Shared runs the borrowed rules of the property being checked.
func Shared(ctx *core.Ctx) {
	for _, s := range shared[ctx.Prop] {
		m := map[string]string{}
		for _, t := range s.take {
			m[t] = s.id
		}
		s := s
		ctx.Borrow(m, map[string]string{s.id: s.doc}, map[string]int{s.id: s.min}, func() {
			for _, f := range s.from {
				f(ctx)
			}
		})
	}
}

package rules

import (
	"go/token"
	"go/types"
	"strings"

	"fv/internal/core"
	"fv/internal/ssax"

	"golang.org/x/tools/go/ssa"
)

// returnsFreshMap: every (non-recover) return of fn returns a map made in fn.
func returnsFreshMap(fn *ssa.Function) bool {
	if fn == nil || fn.Blocks == nil {
		return false
	}
	ok := true
	n := 0
	for _, vs := range ReturnedValues(fn) {
		if len(vs) == 0 {
			return false
		}
		n++
		v := ssax.Strip(vs[0])
		if _, isMake := v.(*ssa.MakeMap); isMake {
			continue
		}
		// the copy may be made by a helper of the package that copies its parameter entry by entry
		if c, isC := CallValue(v); isC && c.Static != nil && c.Static != fn && mapCopierParam(c.Static) >= 0 {
			continue
		}
		ok = false
	}
	return ok && n > 0
}

// mapCopierParam: if fn returns, on every path, a map it makes itself and
// fills entry by entry by ranging over one of its map parameters, the index of
// that parameter; otherwise -1. Such a function only reads its parameter.
func mapCopierParam(fn *ssa.Function) int {
	if fn == nil || len(fn.Blocks) == 0 {
		return -1
	}
	var mk *ssa.MakeMap
	for _, vs := range ReturnedValues(fn) {
		if len(vs) != 1 {
			return -1
		}
		m, ok := ssax.Strip(vs[0]).(*ssa.MakeMap)
		if !ok || (mk != nil && mk != m) {
			return -1
		}
		mk = m
	}
	if mk == nil {
		return -1
	}
	idx := -1
	ssax.Instrs(fn, func(in ssa.Instruction) {
		mu, ok := in.(*ssa.MapUpdate)
		if !ok || ssax.Strip(mu.Map) != ssa.Value(mk) {
			return
		}
		ek, ok1 := ssax.Strip(mu.Key).(*ssa.Extract)
		ev, ok2 := ssax.Strip(mu.Value).(*ssa.Extract)
		if !ok1 || !ok2 || ek.Tuple != ev.Tuple || ek.Index != 1 || ev.Index != 2 {
			return
		}
		nx, ok := ek.Tuple.(*ssa.Next)
		if !ok {
			return
		}
		rg, ok := nx.Iter.(*ssa.Range)
		if !ok {
			return
		}
		for i, p := range fn.Params {
			if ssax.Strip(rg.X) == ssa.Value(p) {
				idx = i
			}
		}
	})
	if idx < 0 {
		return -1
	}
	// the parameter is only read: range / len / lookup
	for _, u := range usesOfMap(fn.Params[idx]) {
		switch u.Kind {
		case "range", "len", "lookup", "copy":
		default:
			return -1
		}
	}
	return idx
}

// C17 — op ids unique, FContexts safe to share and clone.
func C17(ctx *core.Ctx) {
	ctx.Explanation = "Decides for all schedules the lock/atomic discipline that op-id uniqueness and FContext safety rest on: the op-id counter is touched only through sync/atomic; " +
		"every access to the header/property maps of a shared FContextImpl happens under its mutex (exclusive for writes); no guarded map escapes (accessors return a fresh copy filled inside the critical section); " +
		"every FContextImpl construction sets a fresh op id from the atomic counter before the context is returned; Clone initialises every map field from a copying accessor or make, never from the source's field. " +
		"Not decided: race freedom beyond lock discipline, header values."
	r := LoadRT(ctx, "", "")
	if !r.OK() {
		return
	}
	ctx.Rule("C17.R1", "atomic-only counter: every reference to the op-id counter is &counter passed to a sync/atomic function", 1)
	ctx.Rule("C17.R2", "guarded-by: header/property maps of a shared FContextImpl are accessed only with its mutex held (exclusive lock for writes)", 25)
	ctx.Rule("C17.R3", "no escape: a guarded map is used only by lookup/update/range/len/delete inside the critical section", 14)
	ctx.Rule("C17.R4", "fresh op id: every FContextImpl allocation gets opIDHeader := getNextOpID() on every path before it is returned", 4)
	ctx.Rule("C17.R5", "deep clone: every map field of a cloned FContextImpl is a make or the result of a copying accessor", 9)
	ctx.Assume("sync/atomic.AddUint64 is atomic and returns distinct values until the 64-bit counter wraps")

	impl := r.Named("FContextImpl")
	if impl == nil {
		ctx.Unresolved("C17.R2", "FContextImpl", "context implementation type not found")
		return
	}
	st := impl.Underlying().(*types.Struct)
	var mapFields []string
	muField := ""
	for i := 0; i < st.NumFields(); i++ {
		f := st.Field(i)
		if _, ok := f.Type().Underlying().(*types.Map); ok {
			mapFields = append(mapFields, structFieldName(st, i))
		}
		if ssax.TypeNamed(f.Type(), "sync", "RWMutex") || ssax.TypeNamed(f.Type(), "sync", "Mutex") {
			muField = structFieldName(st, i)
		}
	}
	if muField == "" || len(mapFields) == 0 {
		ctx.Unresolved("C17.R2", "FContextImpl fields", "mutex or map fields not found")
		return
	}

	// ---- R1 -------------------------------------------------------------------
	// the counter: the package-level uint64 passed to atomic.AddUint64 in the op-id generator
	// the generator by role: the one function of the package that returns a
	// string and draws it from sync/atomic.AddUint64 (its name is not part of the API)
	gen, nGen := opIDGenerator(r)
	if gen == nil {
		ctx.Unresolved("C17.R1", "op-id generator", sprintf("expected one string- or uint64-returning function drawing from atomic.AddUint64, found %d", nGen))
	}
	if gen != nil {
		// the counter is 64 bits wide: a 32-bit one wraps after 2^32 contexts and
		// hands out the ids of contexts that are still alive
		wide := true
		for _, c := range ssax.Calls(gen) {
			if strings.HasPrefix(c.FullName(), "sync/atomic.Add") && !strings.HasSuffix(c.FullName(), "64") {
				wide = false
			}
		}
		ctx.Check(wide, "C17.R1", "getNextOpID › the counter is 64 bits wide", fnPos(r, gen), "atomic.AddUint64",
			"op ids are drawn from a counter narrower than 64 bits: after 2^32 contexts the counter wraps and a new context gets the op id of one that is still alive (an in-flight or reused context) — 'different from every other one' fails, and the registry refuses the request as already in flight")
	}
	var counter *ssa.Global
	genRecvIdx := -1 // the counter is the generator's parameter #genRecvIdx (method on a named counter type)
	if gen != nil {
		for _, c := range ssax.Calls(gen) {
			if strings.HasPrefix(c.FullName(), "sync/atomic.") && len(c.Common.Args) > 0 {
				a0 := ssax.Strip(c.Common.Args[0])
				if cv, isCv := a0.(*ssa.Convert); isCv {
					a0 = ssax.Strip(cv.X)
				}
				if ct, isCt := a0.(*ssa.ChangeType); isCt {
					a0 = ssax.Strip(ct.X)
				}
				if g, ok := a0.(*ssa.Global); ok {
					counter = g
				}
				for i, q := range gen.Params {
					if a0 == ssa.Value(q) {
						genRecvIdx = i
					}
				}
			}
		}
		if genRecvIdx >= 0 {
			// every call hands the same package-level counter over
			same := true
			for _, fn := range r.Fns {
				for _, c := range ssax.Calls(fn) {
					if c.Static != gen || genRecvIdx >= len(c.Common.Args) {
						continue
					}
					g, ok := ssax.Strip(c.Common.Args[genRecvIdx]).(*ssa.Global)
					if !ok || (counter != nil && counter != g) {
						same = false
					} else {
						counter = g
					}
				}
			}
			if !same {
				counter = nil
			}
		}
		if counter == nil {
			ctx.Violate("C17.R1", "getNextOpID › op-id source", fnPos(r, gen), "the op-id generator no longer draws from a package-level counter through sync/atomic: ids can repeat under concurrency")
		}
	}
	if counter != nil {
		n := 0
		for _, fn := range r.Fns {
			ssax.Instrs(fn, func(in ssa.Instruction) {
				for _, op := range in.Operands(nil) {
					if *op != ssa.Value(counter) {
						continue
					}
					n++
					c, isCall := ssax.AsCall(in)
					ok := isCall && (strings.HasPrefix(c.FullName(), "sync/atomic.") || (c.Static == gen && genRecvIdx >= 0))
					ctx.Check(ok, "C17.R1", ssax.Name(fn)+" › use of "+counter.Name(), r.IPos(in),
						"&"+counter.Name()+" passed to "+c.FullName(), "the op-id counter is read or written without sync/atomic: two contexts can get the same op id")
				}
			})
		}
		ctx.Stat("c17_counter_uses", n)
		// the generator returns the formatted result of the atomic add
		if gen != nil {
			ok := false
			for _, vs := range ReturnedValues(gen) {
				if c, k := CallValue(vs[0]); k && c.FullName() == "strconv.FormatUint" {
					if a, k2 := CallValue(c.Common.Args[0]); k2 && a.FullName() == "sync/atomic.AddUint64" {
						if d, k3 := ssax.ConstInt(a.Common.Args[1]); k3 && d != 0 {
							ok = true
						}
					}
				}
			}
			ctx.Check(ok, "C17.R1", "getNextOpID › returns the new counter value", fnPos(r, gen),
				"returns FormatUint(atomic.AddUint64(&counter, δ≠0))", "op id is not the value returned by the atomic increment (e.g. a separate load): two goroutines can observe the same id")
		}
	}

	// ---- R2 / R3 ----------------------------------------------------------------
	lockCache := map[*ssa.Function]map[ssa.Instruction]ssax.LockSet{}
	locksAt := func(fn *ssa.Function, in ssa.Instruction) ssax.LockSet {
		if lockCache[fn] == nil {
			lockCache[fn] = ssax.LockSets(fn, nil)
		}
		return lockCache[fn][in]
	}
	for _, mf := range mapFields {
		for _, fa := range r.FieldAccesses("FContextImpl", mf) {
			fname := ssax.Name(fa.Fn)
			addr, isAddr := fa.Val.(*ssa.FieldAddr)
			if !isAddr {
				ctx.Violate("C17.R3", fname+" › FContextImpl copied by value ("+mf+")", r.IPos(fa.Instr), "context struct (with its mutex) copied")
				continue
			}
			if FreshBase(fa.Base) {
				continue // object under construction, not shared yet (R4/R5 look at these)
			}
			mu := ssax.AddrKey(fa.Base) + "." + muField
			for _, u := range *addr.Referrers() {
				switch x := u.(type) {
				case *ssa.Store:
					if x.Addr == addr {
						ls := locksAt(fa.Fn, x)
						_, isMake := ssax.Strip(x.Val).(*ssa.MakeMap)
						ctx.Check(ls.Holds(mu, true) && isMake, "C17.R2", fname+" › replaces "+mf, r.IPos(u),
							"map replaced by a fresh make under the exclusive lock", "guarded map field assigned on a shared context without the exclusive lock or with a map that is not fresh")
					}
				case *ssa.UnOp:
					ls := locksAt(fa.Fn, x)
					ctx.Check(ls.Holds(mu, false), "C17.R2", fname+" › load of "+mf, r.IPos(u),
						"lock "+mu+" held: "+strings.Join(ls.Keys(), ","), "header/property map read without holding "+mu+": concurrent AddRequestHeader/AddResponseHeader corrupts the map")
					for _, mu2 := range usesOfMap(x) {
						ls := locksAt(fa.Fn, mu2.Instr)
						write := mu2.Kind == "update" || mu2.Kind == "delete"
						need := "shared or exclusive"
						if write {
							need = "exclusive"
						}
						desc := fname + " › " + mu2.Kind + " on " + mf
						switch mu2.Kind {
						case "update", "delete", "lookup", "len", "copy": // "copy": a synchronous call of a read-only copying helper, under the lock like a range
							ctx.Check(ls.Holds(mu, write), "C17.R2", desc, r.IPos(mu2.Instr), need+" lock held",
								"map "+mu2.Kind+" without the "+need+" lock "+mu)
							ctx.Discharge("C17.R3", desc, r.IPos(mu2.Instr), "map stays inside the critical section")
						case "range":
							// every Next of this range must be under the lock
							rg := mu2.Instr.(*ssa.Range)
							allHeld := ls.Holds(mu, false)
							for _, nx := range *rg.Referrers() {
								if _, ok := nx.(*ssa.Next); ok {
									if !locksAt(fa.Fn, nx).Holds(mu, false) {
										allHeld = false
									}
								}
							}
							ctx.Check(allHeld, "C17.R2", desc, r.IPos(mu2.Instr), "iteration entirely under the lock",
								"map iterated after the lock was released")
							ctx.Discharge("C17.R3", desc, r.IPos(mu2.Instr), "map stays inside the critical section")
						default:
							ctx.Violate("C17.R3", desc+": "+mu2.Instr.String(), r.IPos(mu2.Instr),
								"a guarded map leaves the critical section (returned, stored or passed on): callers can read/modify it while other goroutines hold or take the lock — contexts are no longer independent")
						}
					}
				default:
					ctx.Violate("C17.R3", fname+" › address of "+mf+" escapes: "+u.String(), r.IPos(u), "address of a guarded map field escapes")
				}
			}
		}
	}

	// read locks are not reentrant: an accessor called with the lock held queues behind a waiting writer
	noDoubleAcquire(ctx, r, "C17.R2", "FContextImpl")

	// ---- R3b the context (and its mutex) is never copied as a value ------------------
	{
		n := 0
		for _, fn := range r.Fns {
			ssax.Instrs(fn, func(in ssa.Instruction) {
				v, ok := in.(ssa.Value)
				if !ok {
					return
				}
				if _, isPtr := v.Type().(*types.Pointer); isPtr {
					return
				}
				if !ssax.TypeNamed(v.Type(), "", "FContextImpl") {
					return
				}
				if _, isStruct := v.Type().Underlying().(*types.Struct); !isStruct {
					return
				}
				n++
				ctx.Violate("C17.R3", ssax.Name(fn)+" › FContextImpl value "+v.Name()+" = "+v.String(), r.IPos(in),
					"a whole FContextImpl (with its RWMutex) is loaded/copied as a value: the copy inherits the lock state of the original at that instant (a reader or writer in progress), so the clone's first operation can block forever, and it is taken without the lock")
			})
		}
		if n == 0 {
			ctx.Discharge("C17.R3", "FContextImpl is handled by pointer only", "lib/go/context.go", "no instruction produces a FContextImpl struct value")
		}
	}

	opidConst := constString(r, "opIDHeader")
	freshOpIDs(ctx, r, gen, opidConst, "C17.R4")

	c17OpIDNotOverwritten(ctx, r, gen, opidConst)

	// ---- R5 deep clone -----------------------------------------------------------
	var cloners []*ssa.Function
	for _, f := range r.Impl("FContextWithEphemeralProperties", "Clone") {
		cloners = append(cloners, f)
	}
	if f := r.Fn("C17.R5", "Clone"); f != nil {
		cloners = append(cloners, f)
	}
	// the generic Clone hands a context that can clone itself to its OWN Clone: the
	// test is for the interface, so wrappers and other implementations that carry
	// ephemeral properties keep them (a test for *FContextImpl sends them down the
	// generic path, which starts from an empty property map)
	if f := r.FnOpt("Clone"); f != nil {
		nDisp := 0
		ssax.Instrs(f, func(in ssa.Instruction) {
			ta, ok := in.(*ssa.TypeAssert)
			if !ok || !ta.CommaOk || len(f.Params) == 0 || ssax.Strip(ta.X) != ssa.Value(f.Params[0]) {
				return
			}
			// is Clone invoked on the asserted value?
			invoked := false
			for _, u := range *ta.Referrers() {
				if ex, ok := u.(*ssa.Extract); ok && ex.Index == 0 {
					for _, u2 := range *ex.Referrers() {
						if c, ok := ssax.AsCall(u2); ok && c.ShortName() == "Clone" {
							invoked = true
						}
					}
				}
			}
			if !invoked {
				return
			}
			nDisp++
			_, isIface := ta.AssertedType.Underlying().(*types.Interface)
			ctx.Check(isIface, "C17.R5", ssax.Name(f)+" › self-cloning contexts are recognised by interface", r.IPos(in), "type assertion to an interface that declares Clone",
				"the generic Clone recognises only the concrete "+ta.AssertedType.String()+": a context that embeds it, or another implementation with ephemeral properties, is copied by the generic path and its clone starts with no ephemeral properties")
		})
		_ = nDisp
	}
	for _, fn := range cloners {
		fname := ssax.Name(fn)
		ssax.Instrs(fn, func(in ssa.Instruction) {
			// a clone built through a helper constructor of the package: its fields are the call's arguments
			if cc, isCall := in.(*ssa.Call); isCall && ssax.TypeNamed(cc.Type(), "", "FContextImpl") && FreshBase(cc) {
				for _, mf := range mapFields {
					construct := fname + " › clone field " + mf
					init := ctorFieldArg(cc, mf)
					if init == nil {
						ctx.Violate("C17.R5", construct, r.IPos(cc), "map field left nil in the clone: the first Add… on the clone panics and the clone does not start with equal "+mf)
						continue
					}
					init = ssax.Strip(init)
					if _, isMake := init.(*ssa.MakeMap); isMake {
						ctx.Discharge("C17.R5", construct, r.IPos(cc), "fresh make")
						continue
					}
					if c, ok := CallValue(init); ok {
						targets := r.Resolve(c)
						if c.Static != nil {
							targets = []*ssa.Function{c.Static}
						}
						all := len(targets) > 0
						for _, t := range targets {
							if !returnsFreshMap(t) {
								all = false
							}
						}
						ctx.Check(all, "C17.R5", construct, r.IPos(cc), "initialised from "+c.ShortName()+"(), every implementation of which returns a freshly made copy",
							"initialised from "+c.ShortName()+"(), which does not return a fresh copy: clone and original share the map")
						continue
					}
					ctx.Violate("C17.R5", construct, r.IPos(cc), "initialised from "+init.String()+" — not a copy: later changes on either side are visible to the other")
				}
				return
			}
			al, ok := in.(*ssa.Alloc)
			if !ok || !ssax.TypeNamed(al.Type(), "", "FContextImpl") {
				return
			}
			for _, mf := range mapFields {
				var init ssa.Value
				for _, u := range *al.Referrers() {
					fa, ok := u.(*ssa.FieldAddr)
					if !ok {
						continue
					}
					fs := fa.X.Type().Underlying().(*types.Pointer).Elem().Underlying().(*types.Struct)
					if fs.Field(fa.Field).Name() != mf {
						continue
					}
					for _, s := range *fa.Referrers() {
						if st, ok := s.(*ssa.Store); ok && st.Addr == fa {
							init = ssax.Strip(st.Val)
						}
					}
				}
				construct := fname + " › clone field " + mf
				if init == nil {
					ctx.Violate("C17.R5", construct, r.IPos(al), "map field left nil in the clone: the first Add… on the clone panics and the clone does not start with equal "+mf)
					continue
				}
				if _, isMake := init.(*ssa.MakeMap); isMake {
					ctx.Discharge("C17.R5", construct, r.IPos(al), "fresh make")
					continue
				}
				if c, ok := CallValue(init); ok {
					targets := r.Resolve(c)
					if c.Static != nil {
						targets = []*ssa.Function{c.Static}
					}
					all := len(targets) > 0
					for _, t := range targets {
						if !returnsFreshMap(t) {
							all = false
						}
					}
					ctx.Check(all, "C17.R5", construct, r.IPos(al), "initialised from "+c.ShortName()+"(), every implementation of which returns a freshly made copy",
						"initialised from "+c.ShortName()+"(), which does not return a fresh copy: clone and original share the map")
					for _, t := range targets {
						if src := rangedField(t); src != "" && src != mf {
							ctx.Violate("C17.R5", construct+" (content)", r.IPos(al), "the clone's "+mf+" is initialised from "+c.ShortName()+"(), which copies the source's "+src+": the clone does not start with headers equal to the original's")
						}
					}
					continue
				}
				ctx.Violate("C17.R5", construct, r.IPos(al), "initialised from "+init.String()+" — not a copy: later changes on either side are visible to the other")
			}
		})
	}
	// equal content: what a cloner copies into a map field of the clone comes from
	// the same-named field of the source (a loop that fills cloned.requestHeaders
	// from c.responseHeaders gives the clone foreign request headers and no
	// response headers)
	for _, fn := range cloners {
		n := 0
		ssax.Instrs(fn, func(in ssa.Instruction) {
			mu, ok := in.(*ssa.MapUpdate)
			if !ok {
				return
			}
			ld, isLd := ssax.Strip(mu.Map).(*ssa.UnOp)
			if !isLd || ld.Op != token.MUL {
				return
			}
			dstField := fieldNameOfAddr(ld.X)
			isMapField := false
			for _, mf := range mapFields {
				if mf == dstField {
					isMapField = true
				}
			}
			if !isMapField {
				return
			}
			// key and value of a range over a field of the source
			ke, ok1 := ssax.Strip(mu.Key).(*ssa.Extract)
			ve, ok2 := ssax.Strip(mu.Value).(*ssa.Extract)
			if !ok1 || !ok2 || ke.Tuple != ve.Tuple {
				return
			}
			nx, isN := ke.Tuple.(*ssa.Next)
			if !isN {
				return
			}
			rg, isR := nx.Iter.(*ssa.Range)
			if !isR {
				return
			}
			srcLd, isSrc := ssax.Strip(rg.X).(*ssa.UnOp)
			if !isSrc || srcLd.Op != token.MUL {
				return
			}
			srcField := fieldNameOfAddr(srcLd.X)
			if srcField == "" {
				return
			}
			n++
			ctx.Check(srcField == dstField, "C17.R5", ssax.Name(fn)+sprintf(" › copy loop #%d fills %s of the clone from the same field of the source", n, dstField), r.IPos(in), "range over "+srcField+" → "+dstField,
				"the clone's "+dstField+" is filled from the source's "+srcField+": the clone does not start with headers equal to the original's (entries of one map turn up in the other, and "+srcField+" of the clone stays empty)")
		})
	}
	// copying accessors really copy: a returned fresh map is filled from the guarded field under the lock
	for _, name := range []string{"RequestHeaders", "ResponseHeaders", "EphemeralProperties"} {
		for _, fn := range r.Fns {
			if fn.Name() != name || fn.Signature.Recv() == nil || !ssax.TypeNamed(fn.Signature.Recv().Type(), "", "FContextImpl") {
				continue
			}
			fresh := returnsFreshMap(fn)
			// filled by ranging the guarded field of the receiver
			filled := false
			ssax.Instrs(fn, func(in ssa.Instruction) {
				if mu, ok := in.(*ssa.MapUpdate); ok {
					if _, isMake := ssax.Strip(mu.Map).(*ssa.MakeMap); isMake {
						// key and value come from a Next over a Range of a receiver field
						if ex, ok := ssax.Strip(mu.Key).(*ssa.Extract); ok {
							if nx, ok := ex.Tuple.(*ssa.Next); ok {
								if rg, ok := nx.Iter.(*ssa.Range); ok {
									if u, ok := ssax.Strip(rg.X).(*ssa.UnOp); ok && u.Op == token.MUL {
										if fa, ok := u.X.(*ssa.FieldAddr); ok && IsParam(fa.X, fn, 0) {
											if ev, ok := ssax.Strip(mu.Value).(*ssa.Extract); ok && ev.Tuple == ex.Tuple && ev.Index == 2 && ex.Index == 1 {
												filled = true
											}
										}
									}
								}
							}
						}
					}
				}
			})
			// or by a copying helper applied to the guarded field of the receiver
			for _, c := range ssax.Calls(fn) {
				if c.Static == nil {
					continue
				}
				if pi := mapCopierParam(c.Static); pi >= 0 && pi < len(c.Common.Args) {
					if u, ok := ssax.Strip(c.Common.Args[pi]).(*ssa.UnOp); ok && u.Op == token.MUL {
						if fa, ok := u.X.(*ssa.FieldAddr); ok && IsParam(fa.X, fn, 0) {
							filled = true
						}
					}
				}
			}
			ctx.Check(fresh && filled, "C17.R5", ssax.Name(fn)+" › copying accessor", fnPos(r, fn),
				"returns make(map) filled entry by entry from the receiver's field", "accessor does not return an entry-wise copy of the receiver's map")
		}
	}
}

// c17OpIDNotOverwritten — part of C17.R4: outside the context's own
// accessors, a request-header write under a key that is not a constant (a
// copy loop over another context's headers) can overwrite the reserved op-id
// header. It must be guarded by a test against the op-id key, or a fresh op id
// must be assigned to the same context afterwards on every path.
func c17OpIDNotOverwritten(ctx *core.Ctx, r *RT, gen *ssa.Function, opidConst string) {
	isFresh := func(v ssa.Value) bool {
		c, ok := CallValue(v)
		return ok && c.Static != nil && c.Static == gen
	}
	for _, fn := range r.Fns {
		if fn.Signature.Recv() != nil && ssax.TypeNamed(fn.Signature.Recv().Type(), "", "FContextImpl") && strings.HasPrefix(fn.Name(), "Add") {
			continue // the primitive itself
		}
		n := 0
		for _, c := range ssax.Calls(fn) {
			if c.ShortName() != "AddRequestHeader" || len(c.Args()) != 3 {
				continue
			}
			if _, isK := ConstString(c.Args()[1]); isK {
				continue
			}
			n++
			in := c.Instr.(ssa.Instruction)
			target := ssax.Strip(c.Args()[0])
			if mi, ok := target.(*ssa.MakeInterface); ok {
				target = ssax.Strip(mi.X)
			}
			key := ssax.Strip(c.Args()[1])
			// guarded: dominated by the edge on which key != opIDHeader
			guarded := false
			for cur := in.Block(); cur != nil && !guarded; cur = cur.Idom() {
				if len(cur.Preds) != 1 {
					continue
				}
				p := cur.Preds[0]
				iff, ok := p.Instrs[len(p.Instrs)-1].(*ssa.If)
				if !ok || p.Succs[0] == p.Succs[1] {
					continue
				}
				bo, ok := iff.Cond.(*ssa.BinOp)
				if !ok || (bo.Op != token.EQL && bo.Op != token.NEQ) {
					continue
				}
				kx, sy := bo.X, bo.Y
				if _, isC := ConstString(kx); isC {
					kx, sy = sy, kx
				}
				if s, isC := ConstString(sy); !isC || s != opidConst || ssax.Strip(kx) != key {
					continue
				}
				onTrue := p.Succs[0] == cur
				if (bo.Op == token.NEQ && onTrue) || (bo.Op == token.EQL && !onTrue) {
					guarded = true
				}
			}
			// or re-assigned afterwards on every path to a return
			reassigned := false
			if !guarded {
				setsID := func(i ssa.Instruction) bool {
					c2, ok := ssax.AsCall(i)
					if !ok || c2.ShortName() != "AddRequestHeader" || len(c2.Args()) != 3 {
						return false
					}
					t2 := ssax.Strip(c2.Args()[0])
					if mi, ok := t2.(*ssa.MakeInterface); ok {
						t2 = ssax.Strip(mi.X)
					}
					k, isK := ConstString(c2.Args()[1])
					return isK && k == opidConst && t2 == target && isFresh(c2.Args()[2])
				}
				reassigned = ssax.PathFrom(fn, in, ssax.IsReturn, setsID) == nil
				// a visitor closure handed to an iteration helper: what follows the
				// iteration in the enclosing function counts (the captured context
				// resolves to the enclosing function's value)
				if par := fn.Parent(); !reassigned && par != nil {
					ssax.Instrs(par, func(pi ssa.Instruction) {
						call, ok := pi.(*ssa.Call)
						if !ok {
							return
						}
						for _, a := range call.Call.Args {
							if mc, isMC := ssax.Strip(a).(*ssa.MakeClosure); isMC && mc.Fn == ssa.Value(fn) {
								hands := func(i ssa.Instruction) bool { // a return that hands a context out
									ret, isRet := i.(*ssa.Return)
									if !isRet {
										return false
									}
									if len(ret.Results) == 0 {
										return true
									}
									k, isK := ssax.Strip(ret.Results[0]).(*ssa.Const)
									return !(isK && k.IsNil())
								}
								if ssax.PathFrom(par, pi, hands, setsID) == nil {
									reassigned = true
								}
							}
						}
					})
				}
			}
			ctx.Check(guarded || reassigned, "C17.R4", ssax.Name(fn)+sprintf(" › header copy #%d cannot overwrite the op id", n), r.IPos(in), "guarded by key != _opid, or a fresh op id is assigned afterwards",
				"request headers are copied under arbitrary keys onto a context that already has its fresh op id, without excluding the reserved op-id header: the copy carries the source's op id, so the clone (and every sibling clone) shares it")
		}
	}
}

// ctorFieldArg: for a call of a helper constructor (a function of the package
// that returns a struct it allocates), the value that ends up in the given
// field: the argument bound to the parameter the constructor stores there, or
// the value the constructor itself stores.
func ctorFieldArg(call *ssa.Call, field string) ssa.Value {
	g := call.Call.StaticCallee()
	if g == nil || !allocatorFns[g] {
		return nil
	}
	var out ssa.Value
	ssax.Instrs(g, func(in ssa.Instruction) {
		st, ok := in.(*ssa.Store)
		if !ok {
			return
		}
		fa, ok := st.Addr.(*ssa.FieldAddr)
		if !ok || fieldName(fa) != field {
			return
		}
		if _, isAl := ssax.Strip(fa.X).(*ssa.Alloc); !isAl {
			return
		}
		v := ssax.Strip(st.Val)
		if p, isP := v.(*ssa.Parameter); isP {
			for i, gp := range g.Params {
				if gp == p && i < len(call.Call.Args) {
					out = call.Call.Args[i]
				}
			}
			return
		}
		out = v
	})
	return out
}

// freshOpIDs: every FContextImpl that is constructed gets
// requestHeaders[_opid] = <generator>() on every path before it is returned
// (C17.R4; also the basis of C01's correlation, run there as C01.R11).
func freshOpIDs(ctx *core.Ctx, r *RT, gen *ssa.Function, opidConst string, rule string) {
	// ---- R4 fresh op id on every construction ------------------------------------
	isFreshOpID := func(v ssa.Value) bool {
		c, ok := CallValue(v)
		return ok && c.Static != nil && c.Static == gen
	}
	type site interface {
		ssa.Value
		ssa.Instruction
	}
	// unexported helper constructors hand the obligation to their callers
	deferred := map[*ssa.Function]bool{}
	for _, fn := range r.Fns {
		ssax.Instrs(fn, func(in ssa.Instruction) {
			var al site
			if a, ok := in.(*ssa.Alloc); ok && ssax.TypeNamed(a.Type(), "", "FContextImpl") {
				al = a
			}
			if c, ok := in.(*ssa.Call); ok && ssax.TypeNamed(c.Type(), "", "FContextImpl") {
				if f := c.Call.StaticCallee(); f != nil && allocatorFns[f] && !token.IsExported(f.Name()) && f.Signature.Recv() == nil {
					al = c
					deferred[f] = true
				}
			}
			if al == nil {
				return
			}
			if allocatorFns[fn] && !token.IsExported(fn.Name()) && fn.Signature.Recv() == nil {
				// the helper's own allocation: decided at its call sites (there must be some)
				nCalls := 0
				for _, g := range r.Fns {
					for _, c := range ssax.Calls(g) {
						if c.Static == fn {
							nCalls++
						}
					}
				}
				if nCalls > 0 {
					ctx.Discharge(rule, ssax.Name(fn)+" › helper constructor: op id decided at its call sites", r.IPos(al), sprintf("%d call site(s)", nCalls))
					return
				}
			}
			fname := ssax.Name(fn)
			// maps that are (going to be) the requestHeaders of this object
			isReqMap := func(m ssa.Value) bool {
				m = ssax.Strip(m)
				if base, ok := LoadedFrom(m, "requestHeaders"); ok && ssax.Strip(base) == ssa.Value(al) {
					return true
				}
				if cc, isCall := ssa.Value(al).(*ssa.Call); isCall {
					// al is a helper constructor call: m is the argument it stores as the request headers
					if a := ctorFieldArg(cc, "requestHeaders"); a != nil && ssax.Strip(a) == m {
						return true
					}
				}
				if refs := m.Referrers(); refs != nil {
					for _, u := range *refs {
						if st, ok := u.(*ssa.Store); ok && ssax.Strip(st.Val) == m {
							if fa, ok := st.Addr.(*ssa.FieldAddr); ok && ssax.Strip(fa.X) == ssa.Value(al) {
								fs := fa.X.Type().Underlying().(*types.Pointer).Elem().Underlying().(*types.Struct)
								if fs.Field(fa.Field).Name() == "requestHeaders" {
									return true
								}
							}
						}
					}
				}
				return false
			}
			setsOpID := func(i ssa.Instruction) bool {
				switch x := i.(type) {
				case *ssa.MapUpdate:
					if k, ok := ConstString(x.Key); ok && k == opidConst && isFreshOpID(x.Value) && isReqMap(x.Map) {
						return true
					}
				case *ssa.Call:
					c, _ := ssax.AsCall(x)
					if c.ShortName() == "AddRequestHeader" {
						args := c.Args()
						if len(args) == 3 && ssax.Strip(args[0]) == ssa.Value(al) {
							if k, ok := ConstString(args[1]); ok && k == opidConst && isFreshOpID(args[2]) {
								return true
							}
						}
					}
				}
				return false
			}
			returnsIt := func(i ssa.Instruction) bool {
				ret, ok := i.(*ssa.Return)
				if !ok {
					return false
				}
				for _, v := range ret.Results {
					if ssax.Strip(ResolveLocal(v)) == ssa.Value(al) {
						return true
					}
				}
				return false
			}
			// the op id may be put into the map literal before the struct is allocated:
			// accept an assignment that dominates the alloc as well.
			domSet := false
			ssax.Instrs(fn, func(i ssa.Instruction) {
				if setsOpID(i) && ssax.Dominates(i, al) {
					domSet = true
				}
			})
			anyReturn := false
			ssax.Instrs(fn, func(i ssa.Instruction) {
				if returnsIt(i) {
					anyReturn = true
				}
			})
			if !anyReturn {
				ctx.Violate(rule, fname+" › FContextImpl allocation is not returned directly", r.IPos(al), "context allocated but handed out in an unrecognised way: cannot establish the fresh op id")
				return
			}
			var bad []*ssa.BasicBlock
			if !domSet {
				bad = ssax.PathFrom(fn, al, returnsIt, setsOpID)
			}
			if bad == nil {
				ctx.Discharge(rule, fname+" › new FContextImpl gets a fresh op id", r.IPos(al), "requestHeaders[opIDHeader] = getNextOpID() on every path to the return")
			} else {
				ctx.Violate(rule, fname+" › new FContextImpl gets a fresh op id", r.IPos(al),
					"a context is returned without a fresh op id from the atomic counter (it keeps the wire/source id or none): ids collide between contexts",
					ssax.PathString(r.V.Fset, bad)...)
			}
		})
	}
}

// opIDGenerator: the op-id generator by role — the one function of the package
// that returns a string (or uint64) and draws it from sync/atomic.AddUint64.
func opIDGenerator(r *RT) (*ssa.Function, int) {
	var cands []*ssa.Function
	for _, fn := range r.Fns {
		res := fn.Signature.Results()
		if res.Len() != 1 || fn.Parent() != nil {
			continue
		}
		if b, ok := res.At(0).Type().Underlying().(*types.Basic); !ok || (b.Kind() != types.String && b.Kind() != types.Uint64) {
			continue
		}
		for _, c := range ssax.Calls(fn) {
			if strings.HasPrefix(c.FullName(), "sync/atomic.Add") {
				cands = append(cands, fn)
				break
			}
		}
	}
	if len(cands) == 1 {
		return cands[0], 1
	}
	return nil, len(cands)
}

// rangedField: the one map field of its receiver that fn ranges over ("" if
// none or several).
func rangedField(fn *ssa.Function) string {
	out := ""
	n := 0
	ssax.Instrs(fn, func(in ssa.Instruction) {
		rg, ok := in.(*ssa.Range)
		if !ok {
			return
		}
		if ld, isLd := ssax.Strip(rg.X).(*ssa.UnOp); isLd && ld.Op == token.MUL {
			if f := fieldNameOfAddr(ld.X); f != "" {
				out = f
				n++
			}
		}
	})
	if n != 1 {
		return ""
	}
	return out
}

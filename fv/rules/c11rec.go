package rules

import (
	"strings"

	"fv/internal/core"
	"fv/internal/ssax"

	"golang.org/x/tools/go/ssa"
)

// c11BothElementTypes — C11.R22. A *parser.Type has two element types: the
// value type (list, set, map) and the key type (map). A function that walks a
// type by calling itself on `.ValueType` of its parameter is a structural
// traversal; it covers the whole type only if it also calls itself on
// `.KeyType` (possibly under a test for maps). A traversal that never looks at
// the key type — a cycle search, an include collector, a validity check — is
// blind to everything reachable through a map key only: a typedef cycle closed
// through `map<Key,string> Key` is accepted and the generators recurse until
// the stack overflows.
func c11BothElementTypes(ctx *core.Ctx, cc *CC) {
	ctx.Rule("C11.R22", "type traversals descend into both element types: a function that calls itself on .ValueType of a *parser.Type parameter also calls itself on .KeyType", 3)
	n := 0
	for _, fn := range cc.Fns {
		if fn.Pkg == nil || !strings.Contains(fn.Pkg.Pkg.Path(), "/compiler") {
			continue
		}
		var tparams []*ssa.Parameter
		for _, p := range fn.Params {
			if ssax.TypeNamed(p.Type(), "parser", "Type") {
				tparams = append(tparams, p)
			}
		}
		if len(tparams) == 0 {
			continue
		}
		for _, p := range tparams {
			onField := map[string]bool{}
			for _, c := range ssax.Calls(fn) {
				if c.Static != fn {
					continue
				}
				for _, a := range c.Common.Args {
					if ld, ok := ssax.Strip(a).(*ssa.UnOp); ok {
						if fa, ok := ld.X.(*ssa.FieldAddr); ok && ssax.Strip(fa.X) == ssa.Value(p) {
							onField[fieldNameOfAddr(fa)] = true
						}
					}
				}
			}
			if !onField["ValueType"] && !onField["KeyType"] {
				continue
			}
			n++
			ctx.Check(onField["ValueType"] && onField["KeyType"], "C11.R22", QName(fn)+" › the traversal of "+p.Name()+" descends into the key type and the value type", cc.FPos(fn), "recursive calls on both .KeyType and .ValueType",
				"the function walks a type by calling itself on one element type only: whatever is reachable through the other one (a map's key type) is never visited — a typedef cycle closed through a map key passes validation and the generators overflow the stack; an include referenced only in a key type is not collected")
		}
	}
	if n == 0 {
		ctx.Unresolved("C11.R22", "type traversals", "no function recursing over the element types of a *parser.Type")
	}
}

var _ = core.Ctx{}

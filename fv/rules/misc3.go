package rules

import (
	"go/types"
	"sort"
	"strings"

	"fv/internal/core"
	"fv/internal/ssax"

	"golang.org/x/tools/go/ssa"
)

// radixAgreement: every strconv Parse/Format of integers in the given
// functions uses one and the same constant base (writers and readers of a
// decimal text field must agree; base 0 re-reads "013" as octal).
func radixAgreement(ctx *core.Ctx, fns []*ssa.Function, pos func(ssa.Instruction) string, name func(*ssa.Function) string, rule, detail string) {
	type site struct {
		fn   *ssa.Function
		in   ssa.Instruction
		what string
		base int64
		ok   bool
	}
	var sites []site
	count := map[int64]int{}
	for _, fn := range fns {
		for _, c := range ssax.Calls(fn) {
			full := c.FullName()
			idx := -1
			switch full {
			case "strconv.ParseInt", "strconv.ParseUint", "strconv.FormatInt", "strconv.FormatUint":
				idx = 1
			}
			if full == "strconv.Atoi" {
				// Atoi reads a SIGNED, machine-width int: an op id is an unsigned 64-bit
				// number, so valid ids from 2^63 (2^31 on 32-bit) are refused
				sites = append(sites, site{fn, c.Instr.(ssa.Instruction), "Atoi", 0, false})
				continue
			}
			if idx < 0 {
				continue
			}
			if full == "strconv.ParseInt" || full == "strconv.ParseUint" {
				if w, isW := ssax.ConstInt(c.Args()[2]); !isW || w != 64 {
					sites = append(sites, site{fn, c.Instr.(ssa.Instruction), strings.TrimPrefix(full, "strconv.") + " (width)", w, false})
					continue
				}
			}
			b, isK := ssax.ConstInt(c.Args()[idx])
			sites = append(sites, site{fn, c.Instr.(ssa.Instruction), strings.TrimPrefix(full, "strconv."), b, isK})
			if isK {
				count[b]++
			}
		}
	}
	// decimal text on both sides: the formatting sites decide (they write what the parsers read);
	// without any formatting site the text comes from outside and is decimal by the format definition
	var major int64 = 10
	best := count[10]
	_ = best
	seen := map[string]int{}
	for _, s := range sites {
		seen[name(s.fn)+s.what]++
		construct := name(s.fn) + " › " + s.what + sprintf(" #%d uses the common radix", seen[name(s.fn)+s.what])
		ctx.Check(s.ok && s.base == major, rule, construct, pos(s.in), sprintf("base %d", major),
			sprintf("this conversion uses base/width %d (constant: %v) while the others use base %d, 64 bits (Atoi = signed machine int: numbers from 2^63 are refused): ", s.base, s.ok, major)+detail)
	}
}

// c03LoopCapture — C03.R10: a goroutine started inside a loop captures only
// variables that belong to its iteration. A captured variable that is declared
// outside the loop and assigned inside it is shared by all the goroutines: by
// the time an earlier one runs it may already hold the next iteration's value
// (two connections served as one, the earlier one never served).
func c03LoopCapture(ctx *core.Ctx, r *RT, rule string) {
	for _, fn := range r.Fns {
		n := 0
		for _, c := range ssax.Calls(fn) {
			g, isGo := c.Instr.(*ssa.Go)
			if !isGo || !inCycle(g) {
				continue
			}
			mc, ok := g.Call.Value.(*ssa.MakeClosure)
			if !ok {
				continue
			}
			n++
			loop := loopBlocks(g.Block())
			bad := ""
			for _, b := range mc.Bindings {
				al, isAl := b.(*ssa.Alloc)
				if !isAl || loop[al.Block()] || al.Referrers() == nil {
					continue
				}
				for _, u := range *al.Referrers() {
					if st, isSt := u.(*ssa.Store); isSt && st.Addr == ssa.Value(al) && loop[st.Block()] {
						bad = al.Comment + " (assigned at " + r.IPos(st) + ")"
					}
				}
			}
			ctx.Check(bad == "", rule, ssax.Name(fn)+sprintf(" › goroutine #%d started in a loop captures per-iteration variables only", n), r.IPos(g), "no captured variable is assigned in the loop but declared outside it",
				"the goroutine captures "+bad+", a variable shared by all iterations: when two iterations run back to back the earlier goroutine sees the later value — e.g. two accepted connections are served as one and the first caller is never answered")
		}
	}
}

// c10ParseCache — C10.R8: the memo map of the recursive file parser is keyed by
// what identifies the file (the path it is opened with), in every lookup and
// every update.
func c10ParseCache(ctx *core.Ctx, cc *CC) {
	ctx.Rule("C10.R8", "include cache identity: the parse cache is looked up and filled under the path the file is opened with", 2)
	pf := cc.Fn("C10.R8", "parser", "parseFrugal")
	if pf == nil {
		return
	}
	var opened ssa.Value
	for _, c := range ssax.Calls(pf) {
		if c.FullName() == "os.Open" || c.FullName() == "os.ReadFile" || c.FullName() == "io/ioutil.ReadFile" {
			opened = ssax.Strip(c.Args()[0])
		}
	}
	if opened == nil {
		ctx.Unresolved("C10.R8", QName(pf), "the file is not opened with os.Open in the recursive parser")
		return
	}
	var cache *ssa.Parameter
	for _, p := range pf.Params {
		if m, ok := p.Type().Underlying().(*types.Map); ok && ssax.TypeNamed(m.Elem(), "", "Frugal") {
			cache = p
		}
	}
	if cache == nil {
		ctx.Unresolved("C10.R8", QName(pf), "no memo map parameter")
		return
	}
	var uses []ssa.Instruction
	ssax.Instrs(pf, func(in ssa.Instruction) {
		switch x := in.(type) {
		case *ssa.Lookup:
			if ssax.Strip(x.X) == ssa.Value(cache) {
				uses = append(uses, in)
			}
		case *ssa.MapUpdate:
			if ssax.Strip(x.Map) == ssa.Value(cache) {
				uses = append(uses, in)
			}
		}
	})
	sort.Slice(uses, func(i, j int) bool { return uses[i].Pos() < uses[j].Pos() })
	for i, u := range uses {
		var key ssa.Value
		kind := "lookup"
		switch x := u.(type) {
		case *ssa.Lookup:
			key = x.Index
		case *ssa.MapUpdate:
			key, kind = x.Key, "update"
		}
		ctx.Check(dependsOn(key, opened, 0), "C10.R8", QName(pf)+sprintf(" › cache %s #%d is keyed by the opened path", kind, i+1), cc.IPos(u), "key is (computed from) the value passed to os.Open",
			"the cache is keyed by something else than the path of the file (e.g. its base name): two different files with the same name in different directories share one entry, so an include gets another file's model (wrong declarations, or a valid program rejected)")
	}
	if len(uses) == 0 {
		ctx.Discharge("C10.R8", QName(pf)+" › no cache use", cc.FPos(pf), "the memo map is not consulted")
	}
	// the cache lives for one parse: every caller other than the recursion
	// itself hands over a map it has just made (a package-level or otherwise
	// long-lived cache returns the model of a file as it was when first read)
	ci := -1
	for i, p := range pf.Params {
		if p == cache {
			ci = i
		}
	}
	// where the cache comes from: follow a parameter back to the call sites of
	// its function (the recursion may go through helpers that pass it on)
	type site struct {
		fn  *ssa.Function
		idx int
	}
	seen := map[site]bool{}
	var roots func(f *ssa.Function, idx int)
	roots = func(f *ssa.Function, idx int) {
		if seen[site{f, idx}] {
			return
		}
		seen[site{f, idx}] = true
		for _, fn := range cc.Fns {
			if fn.Pkg != pf.Pkg {
				continue
			}
			for _, c := range ssax.Calls(fn) {
				if c.Static != f || idx >= len(c.Common.Args) {
					continue
				}
				arg := ssax.Strip(c.Common.Args[idx])
				if par, isPar := arg.(*ssa.Parameter); isPar {
					for j, q := range fn.Params {
						if q == par {
							roots(fn, j) // handed on: judged where it enters
						}
					}
					continue
				}
				mm, fresh := arg.(*ssa.MakeMap)
				if fresh && mm.Parent() != fn {
					fresh = false
				}
				ctx.Check(fresh, "C10.R8", QName(fn)+" › the parse cache is made for this parse", cc.IPos(c.Instr), "map literal / make at the call",
					"the cache handed to the recursive parser ("+arg.String()+") outlives the parse: a file that was parsed before is never read again, so the model no longer reflects the text — an IDL edited or generated during the run, or included by a later file, is seen in its old state (or rejected for a type it now declares)")
			}
		}
	}
	roots(pf, ci)
}

// dependsOn: is target in the backward data slice of v (through operands of
// pure instructions and calls)?
func dependsOn(v, target ssa.Value, depth int) bool {
	v = ssax.Strip(v)
	if v == target {
		return true
	}
	if depth > 6 {
		return false
	}
	in, ok := v.(ssa.Instruction)
	if !ok {
		return false
	}
	// what is read *from* the opened file (its declared name, its contents) identifies the
	// content, not the file: do not look through I/O calls
	if c, isC := ssax.AsCall(in); isC {
		if full := c.FullName(); strings.HasPrefix(full, "os.") || strings.HasPrefix(full, "io.") || strings.HasPrefix(full, "io/ioutil.") || strings.HasPrefix(full, "bufio.") {
			return false
		}
	}
	for _, op := range in.Operands(nil) {
		if *op != nil && dependsOn(*op, target, depth+1) {
			return true
		}
	}
	// the elements of a variadic call travel through a local array: f(a, b...) = f(new [n]T{a, b}[:])
	if al, isAlloc := v.(*ssa.Alloc); isAlloc && al.Referrers() != nil {
		for _, u := range *al.Referrers() {
			ia, isIA := u.(*ssa.IndexAddr)
			if !isIA || ia.Referrers() == nil {
				continue
			}
			for _, u2 := range *ia.Referrers() {
				if st, isSt := u2.(*ssa.Store); isSt && st.Addr == ssa.Value(ia) && dependsOn(st.Val, target, depth+1) {
					return true
				}
			}
		}
	}
	return false
}

// argumentRoles: when caller and callee (both in the analysed package) have a
// string parameter of the same name, the caller passes *its* parameter of that
// name (or something computed from it) in that position — two adjacent string
// arguments swapped compile and keep every single-site check happy.
func argumentRoles(ctx *core.Ctx, r *RT, rule string, names map[string]bool, detail string) {
	for _, fn := range r.Fns {
		byName := map[string]*ssa.Parameter{}
		for _, p := range fn.Params {
			if b, ok := p.Type().Underlying().(*types.Basic); ok && b.Kind() == types.String && names[p.Name()] {
				byName[p.Name()] = p
			}
		}
		if len(byName) == 0 {
			continue
		}
		n := 0
		for _, c := range ssax.Calls(fn) {
			if c.Static == nil || c.Static.Pkg != r.Pkg || c.Static == fn {
				continue
			}
			for i, cp := range c.Static.Params {
				mine, ok := byName[cp.Name()]
				if !ok || i >= len(c.Common.Args) {
					continue
				}
				if b, isB := cp.Type().Underlying().(*types.Basic); !isB || b.Kind() != types.String {
					continue
				}
				n++
				arg := c.Common.Args[i]
				ctx.Check(dependsOn(arg, mine, 0), rule, ssax.Name(fn)+sprintf(" › passes its %q on as %s's %q (call #%d)", cp.Name(), ssax.Name(c.Static), cp.Name(), n), r.IPos(c.Instr), "same-named parameter forwarded in place",
					"the callee's parameter \""+cp.Name()+"\" receives "+arg.Name()+" instead of this function's \""+cp.Name()+"\": "+detail)
			}
		}
	}
}

// natsReplyBufferLimit: a bounded output buffer whose bytes are published on
// NATS is bounded by the NATS payload constant.
func natsReplyBufferLimit(ctx *core.Ctx, r *RT, rule string) {
	natsMax := constInt(r, "natsMaxMessageSize")
	n := 0
	for _, fn := range r.Fns {
		pub := false
		for _, c := range ssax.Calls(fn) {
			if strings.HasPrefix(c.FullName(), "(*github.com/nats-io/nats.go.Conn).Publish") {
				pub = true
			}
		}
		if !pub {
			continue
		}
		for _, c := range ssax.Calls(fn) {
			if c.Static == nil || c.Static.Name() != "NewTMemoryOutputBuffer" {
				continue
			}
			n++
			k, isK := ssax.ConstInt(c.Args()[0])
			ctx.Check(isK && k == natsMax, rule, ssax.Name(fn)+" › reply buffer limit = natsMaxMessageSize", r.IPos(c.Instr), sprintf("constant %d", natsMax),
				sprintf("the reply buffer is bounded by %d (constant: %v) but the broker accepts %d bytes: a reply between the two is not turned into RESPONSE_TOO_LARGE, the publish fails and the caller gets no reply at all", k, isK, natsMax))
		}
	}
	if n == 0 {
		ctx.Unresolved(rule, "NATS server reply buffer", "no bounded output buffer in a function that publishes on NATS")
	}
}

// packageStateMutations lists package-level variables (outside the exempt
// package) that are written after initialisation by functions of the given
// cone: assigned outside init, or a map/slice mutated in place — directly or
// through a function that updates the container it is handed.
func packageStateMutations(cone []*ssa.Function, all []*ssa.Function, exempt *ssa.Package) map[*ssa.Global]string {
	// summary: which parameters does a function mutate in place (map update / element store / append-assign is not in place)
	mutates := map[*ssa.Function]map[int]bool{}
	paramIndex := func(fn *ssa.Function, v ssa.Value) int {
		for i, p := range fn.Params {
			if ssa.Value(p) == ssax.Strip(v) {
				return i
			}
		}
		return -1
	}
	changed := true
	for changed {
		changed = false
		for _, fn := range all {
			mark := func(i int) {
				if i < 0 {
					return
				}
				if mutates[fn] == nil {
					mutates[fn] = map[int]bool{}
				}
				if !mutates[fn][i] {
					mutates[fn][i] = true
					changed = true
				}
			}
			ssax.Instrs(fn, func(in ssa.Instruction) {
				switch x := in.(type) {
				case *ssa.MapUpdate:
					mark(paramIndex(fn, x.Map))
				case *ssa.Store:
					if ia, ok := x.Addr.(*ssa.IndexAddr); ok {
						mark(paramIndex(fn, ia.X))
					}
				case ssa.CallInstruction:
					c, ok := ssax.AsCall(in)
					if !ok || c.Static == nil {
						return
					}
					for j, a := range c.Common.Args {
						if mutates[c.Static][j] {
							mark(paramIndex(fn, a))
						}
					}
				}
			})
		}
	}
	out := map[*ssa.Global]string{}
	globalOf := func(v ssa.Value) *ssa.Global {
		if u, ok := ssax.Strip(v).(*ssa.UnOp); ok {
			if g, ok := u.X.(*ssa.Global); ok {
				return g
			}
		}
		return nil
	}
	for _, fn := range cone {
		if fn.Name() == "init" || strings.HasPrefix(fn.Name(), "init#") {
			continue
		}
		ssax.Instrs(fn, func(in ssa.Instruction) {
			note := func(g *ssa.Global, how string) {
				if g == nil || g.Pkg == exempt || strings.HasPrefix(g.Name(), "init$") {
					return
				}
				if _, seen := out[g]; !seen {
					out[g] = how + " in " + QName(fn)
				}
			}
			switch x := in.(type) {
			case *ssa.Store:
				if g, ok := x.Addr.(*ssa.Global); ok {
					note(g, "assigned")
				}
				if ia, ok := x.Addr.(*ssa.IndexAddr); ok {
					note(globalOf(ia.X), "element stored")
				}
			case *ssa.MapUpdate:
				note(globalOf(x.Map), "map updated")
			case ssa.CallInstruction:
				c, ok := ssax.AsCall(in)
				if !ok || c.Static == nil {
					return
				}
				for j, a := range c.Common.Args {
					if mutates[c.Static][j] {
						note(globalOf(a), "handed to "+QName(c.Static)+", which updates it,")
					}
				}
			}
		})
	}
	return out
}

// localCone: fn and the functions of its own package it calls statically, up to
// the given depth (extracted helpers belong to the function they were split from).
func localCone(fn *ssa.Function, depth int) []*ssa.Function {
	out := []*ssa.Function{fn}
	seen := map[*ssa.Function]bool{fn: true}
	frontier := []*ssa.Function{fn}
	for d := 0; d < depth; d++ {
		var next []*ssa.Function
		for _, f := range frontier {
			for _, c := range ssax.Calls(f) {
				if _, isGo := c.Instr.(*ssa.Go); isGo {
					continue
				}
				g := c.Static
				if g == nil || g.Pkg != fn.Pkg || seen[g] || len(g.Blocks) == 0 {
					continue
				}
				seen[g] = true
				out = append(out, g)
				next = append(next, g)
			}
		}
		frontier = next
	}
	return out
}

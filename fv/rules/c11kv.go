package rules

import (
	"go/token"
	"sort"
	"strconv"

	"fv/internal/core"
	"fv/internal/ssax"

	"golang.org/x/tools/go/ssa"
)

// c11KeyValue — C11.R7: a map type has a key type and a value type, and code
// that walks a type visits both on the same type object.
//
//	(a) base agreement: in a basic block that reads X.KeyType and Y.ValueType of
//	    parser.Type values, X and Y are the same value (not the typedef alias
//	    for one and its resolved type for the other);
//	(b) a function that tests X.KeyType for nil reads X.ValueType somewhere
//	    that is not confined to the "KeyType == nil" side (else the value type
//	    of every map is skipped).
func c11KeyValue(ctx *core.Ctx, cc *CC) {
	ctx.Rule("C11.R7", "container traversal siblings: key and value type of a map are taken from the same type object, and the value type is not visited only when there is no key type", 15)
	fieldLoad := func(in ssa.Instruction) (base ssa.Value, field string, ok bool) {
		u, isU := in.(*ssa.UnOp)
		if !isU || u.Op != token.MUL {
			return nil, "", false
		}
		fa, isFA := u.X.(*ssa.FieldAddr)
		if !isFA || !ssax.TypeNamed(fa.X.Type(), "", "Type") {
			return nil, "", false
		}
		n := fieldName(fa)
		if n != "KeyType" && n != "ValueType" {
			return nil, "", false
		}
		return ssax.Strip(fa.X), n, true
	}
	for _, fn := range cc.Fns {
		type blockInfo struct {
			k, v map[ssa.Value]ssa.Instruction
		}
		info := map[*ssa.BasicBlock]*blockInfo{}
		var nilTests []struct {
			base    ssa.Value
			iff     *ssa.If
			nilSucc *ssa.BasicBlock
		}
		var vLoads []struct {
			base ssa.Value
			in   ssa.Instruction
		}
		ssax.Instrs(fn, func(in ssa.Instruction) {
			base, f, ok := fieldLoad(in)
			if !ok {
				return
			}
			bi := info[in.Block()]
			if bi == nil {
				bi = &blockInfo{map[ssa.Value]ssa.Instruction{}, map[ssa.Value]ssa.Instruction{}}
				info[in.Block()] = bi
			}
			if f == "KeyType" {
				bi.k[base] = in
				// nil test?
				for _, u := range *in.(ssa.Value).Referrers() {
					bo, isB := u.(*ssa.BinOp)
					if !isB || (bo.Op != token.EQL && bo.Op != token.NEQ) {
						continue
					}
					other := bo.Y
					if bo.Y == in.(ssa.Value) {
						other = bo.X
					}
					if c, isC := other.(*ssa.Const); !isC || !c.IsNil() {
						continue
					}
					for _, w := range *bo.Referrers() {
						if iff, isIf := w.(*ssa.If); isIf {
							ns := iff.Block().Succs[0]
							if bo.Op == token.NEQ {
								ns = iff.Block().Succs[1]
							}
							nilTests = append(nilTests, struct {
								base    ssa.Value
								iff     *ssa.If
								nilSucc *ssa.BasicBlock
							}{base, iff, ns})
						}
					}
				}
			} else {
				bi.v[base] = in
				// only loads that are used for something else than a nil comparison "visit" the value type
				visits := false
				for _, u := range *in.(ssa.Value).Referrers() {
					if bo, isB := u.(*ssa.BinOp); isB && (bo.Op == token.EQL || bo.Op == token.NEQ) {
						continue
					}
					if _, isD := u.(*ssa.DebugRef); isD {
						continue
					}
					visits = true
				}
				if !visits {
					return
				}
				vLoads = append(vLoads, struct {
					base ssa.Value
					in   ssa.Instruction
				}{base, in})
			}
		})
		// (a)
		var blocks []*ssa.BasicBlock
		for b := range info {
			blocks = append(blocks, b)
		}
		sort.Slice(blocks, func(i, j int) bool { return blocks[i].Index < blocks[j].Index })
		n := 0
		for _, b := range blocks {
			bi := info[b]
			if len(bi.k) == 0 || len(bi.v) == 0 {
				continue
			}
			n++
			bad := ""
			for base, in := range bi.v {
				if _, ok := bi.k[base]; !ok {
					bad = cc.IPos(in) + ": ValueType of " + base.Name() + " next to KeyType of another type object"
				}
			}
			for base, in := range bi.k {
				if _, ok := bi.v[base]; !ok {
					bad = cc.IPos(in) + ": KeyType of " + base.Name() + " next to ValueType of another type object"
				}
			}
			var pos ssa.Instruction
			for _, in := range bi.k {
				pos = in
			}
			ctx.Check(bad == "", "C11.R7", QName(fn)+" › key/value pair #"+strconv.Itoa(n)+" read from one type object", cc.IPos(pos), "same base value for .KeyType and .ValueType",
				"key and value type of a map are read from different type objects ("+bad+"): when the declared type is a typedef alias one of them is nil (generator panic on valid IDL) or belongs to another type")
		}
		// (b)
		for i, nt := range nilTests {
			nonNilSide := false
			total := 0
			for _, vl := range vLoads {
				if vl.base != nt.base {
					continue
				}
				total++
				confined := len(nt.nilSucc.Preds) == 1 && nt.nilSucc.Dominates(vl.in.Block())
				if !confined {
					nonNilSide = true
				}
			}
			if total == 0 {
				continue // the function does not look at value types of this object at all
			}
			ctx.Check(nonNilSide, "C11.R7", QName(fn)+" › nil test #"+strconv.Itoa(i+1)+" of KeyType does not hide the value type", cc.IPos(nt.iff), "ValueType is read outside the KeyType == nil branch",
				"the value type is visited only when the type has no key type: the value type of every map is skipped (e.g. its include is not imported and the generated code does not compile)")
		}
	}
}

package rules

import (
	"go/token"
	"go/types"

	"fv/internal/core"
	"fv/internal/ssax"

	"golang.org/x/tools/go/ssa"
)

// c10IndexComplete — C10.R9: a name index of the parsed model (a map field of
// a parser struct) is complete before it is consulted. A loop that both adds
// an entry to obj.index and, in the same trip, calls something that looks
// obj.index up (on the same object, directly or through callees that are
// handed the object) makes the result depend on declaration order: a
// reference to a declaration later in the file is "not found" although the
// IDL is valid (Thrift/Frugal constants, typedefs and structs may be used
// before they are declared).
func c10IndexComplete(ctx *core.Ctx, cc *CC) {
	ctx.Rule("C10.R9", "name indexes are complete before use: no map field of a parser object is filled in the same loop that (transitively) looks it up on that object", 1)
	pp := cc.Pkg("parser")
	if pp == nil {
		ctx.Unresolved("C10.R9", "parser package", "not loaded")
		return
	}
	res := cc.Resolver()
	// map field (of a struct of package parser) behind a map value, with the object it is read from
	fieldOfMap := func(m ssa.Value) (obj ssa.Value, field string) {
		u, ok := ssax.Strip(m).(*ssa.UnOp)
		if !ok || u.Op != token.MUL {
			return nil, ""
		}
		fa, ok := u.X.(*ssa.FieldAddr)
		if !ok {
			return nil, ""
		}
		pt, ok := fa.X.Type().Underlying().(*types.Pointer)
		if !ok {
			return nil, ""
		}
		n, ok := pt.Elem().(*types.Named)
		if !ok || n.Obj().Pkg() != pp.Pkg {
			return nil, ""
		}
		st := n.Underlying().(*types.Struct)
		return ssax.Strip(fa.X), n.Obj().Name() + "." + st.Field(fa.Field).Name()
	}
	// does g, handed the object as parameter #pi, look field up on it (depth-bounded)?
	var looksUp func(g *ssa.Function, pi int, field string, depth int, seen map[*ssa.Function]bool) ssa.Instruction
	looksUp = func(g *ssa.Function, pi int, field string, depth int, seen map[*ssa.Function]bool) ssa.Instruction {
		if g == nil || len(g.Blocks) == 0 || pi >= len(g.Params) || seen[g] || depth < 0 {
			return nil
		}
		seen[g] = true
		var hit ssa.Instruction
		ssax.Instrs(g, func(in ssa.Instruction) {
			if hit != nil {
				return
			}
			if lk, ok := in.(*ssa.Lookup); ok {
				if o, f := fieldOfMap(lk.X); f == field && o == ssa.Value(g.Params[pi]) {
					hit = in
				}
			}
			if c, ok := ssax.AsCall(in); ok {
				for i, a := range c.Args() {
					if ssax.Strip(a) == ssa.Value(g.Params[pi]) {
						for _, t := range res(c) {
							if h := looksUp(t, i, field, depth-1, seen); h != nil {
								hit = h
							}
						}
					}
				}
			}
		})
		return hit
	}
	n := 0
	for _, fn := range cc.Fns {
		if fn.Pkg != pp {
			continue
		}
		ssax.Instrs(fn, func(in ssa.Instruction) {
			mu, ok := in.(*ssa.MapUpdate)
			if !ok || !inCycle(in) {
				return
			}
			obj, field := fieldOfMap(mu.Map)
			if obj == nil {
				return
			}
			n++
			construct := QName(fn) + " › " + field + " filled in a loop"
			var bad ssa.Instruction
			sameLoop := func(x ssa.Instruction) bool {
				return x.Block() == in.Block() || (blockReaches(in.Block(), x.Block()) && blockReaches(x.Block(), in.Block()))
			}
			ssax.Instrs(fn, func(x ssa.Instruction) {
				if bad != nil || !sameLoop(x) {
					return
				}
				if lk, ok := x.(*ssa.Lookup); ok {
					if o, f := fieldOfMap(lk.X); f == field && o == obj {
						// a duplicate test on the key being inserted is not a reference to another declaration
						if ssax.Strip(lk.Index) != ssax.Strip(mu.Key) {
							bad = x
						}
					}
				}
				if c, ok := ssax.AsCall(x); ok {
					for i, a := range c.Args() {
						if ssax.Strip(a) != obj {
							continue
						}
						for _, t := range res(c) {
							if h := looksUp(t, i, field, 3, map[*ssa.Function]bool{}); h != nil {
								bad = x
							}
						}
					}
				}
			})
			if bad == nil {
				ctx.Discharge("C10.R9", construct, cc.IPos(in), "nothing in the same loop looks the index up on the same object")
			} else {
				ctx.Violate("C10.R9", construct, cc.IPos(bad),
					"the index is consulted (here) in the same loop that is still filling it: a reference to a declaration that comes later in the file is not found, so valid IDL is rejected or resolved differently depending on declaration order")
			}
		})
	}
	if n == 0 {
		ctx.Discharge("C10.R9", "parser › no index is filled in a loop", "", "no map field of a parser object is updated inside a loop")
	}
}

// everyTrip: instruction in (inside a loop) is executed on every trip of its
// innermost loop: from the entry of the loop body no way leads back to the
// loop header without passing it.
func everyTrip(in ssa.Instruction) bool {
	if !inCycle(in) {
		return false
	}
	fn := in.Parent()
	var header *ssa.BasicBlock
	for b := in.Block(); b != nil && header == nil; b = b.Idom() {
		for _, p := range b.Preds {
			if b.Dominates(p) && (p == in.Block() || in.Block() == b || blockReaches(in.Block(), p)) {
				header = b
			}
		}
	}
	if header == nil {
		return false
	}
	isIn := func(x ssa.Instruction) bool { return x == in }
	isHeader := func(x ssa.Instruction) bool { return x.Block() == header && x == header.Instrs[0] }
	for _, s := range header.Succs {
		if s != header && !blockReaches(s, header) {
			continue // loop exit
		}
		if len(s.Instrs) == 0 || isIn(s.Instrs[0]) {
			continue
		}
		// s.Instrs[0] itself is the start; PathFrom starts after `from`, so test a header hit at the start too
		if isHeader(s.Instrs[0]) {
			return false
		}
		if ssax.PathFrom(fn, s.Instrs[0], isHeader, isIn) != nil {
			return false
		}
	}
	return true
}

// c10ForcedModifiers — C10.R10: where the parser overrides the declared
// requiredness of a list of fields (union members and declared exceptions are
// optional whatever the IDL says), it does so for every field of the list: the
// store of the constant modifier inside the loop is unconditional.
func c10ForcedModifiers(ctx *core.Ctx, cc *CC) {
	ctx.Rule("C10.R10", "forced requiredness is unconditional: a loop of the parser that sets the modifier of the fields of a list to a constant does so on every trip", 2)
	pp := cc.Pkg("parser")
	if pp == nil {
		return
	}
	n := 0
	for _, fn := range cc.Fns {
		if fn.Pkg != pp {
			continue
		}
		ord := 0
		ssax.Instrs(fn, func(in ssa.Instruction) {
			st, ok := in.(*ssa.Store)
			if !ok || fieldNameOfAddr(st.Addr) != "Modifier" || !inCycle(in) {
				return
			}
			if _, isK := ssax.ConstInt(st.Val); !isK {
				return
			}
			// the field comes from a slice element (a list of declared fields)
			fa, isFA := st.Addr.(*ssa.FieldAddr)
			if !isFA {
				return
			}
			if u, isU := ssax.Strip(fa.X).(*ssa.UnOp); !isU || u.Op != token.MUL {
				return
			} else if _, isIA := u.X.(*ssa.IndexAddr); !isIA {
				return
			}
			n++
			ord++
			ctx.Check(everyTrip(in), "C10.R10", QName(fn)+sprintf(" › modifier override #%d applies to every field of the list", ord), cc.IPos(in),
				"the store is executed on every trip of the loop", "the override is conditional (e.g. only for fields without an explicit keyword): `required` on a union member or a declared exception survives into the model, so two IDL spellings of the same declaration give different models and the generators treat the field as required")
		})
	}
	_ = n
}

package rules

import (
	"go/token"
	"go/types"

	"fv/internal/core"
	"fv/internal/ssax"

	"golang.org/x/tools/go/ssa"
)

// c10IndexComplete — C10.R9: a name index of the parsed model (a map field of
// a parser struct) is complete before it is consulted. A loop that both adds
// an entry to obj.index and, in the same trip, calls something that looks
// obj.index up (on the same object, directly or through callees that are
// handed the object) makes the result depend on declaration order: a
// reference to a declaration later in the file is "not found" although the
// IDL is valid (Thrift/Frugal constants, typedefs and structs may be used
// before they are declared).
func c10IndexComplete(ctx *core.Ctx, cc *CC) {
	ctx.Rule("C10.R9", "name indexes are complete before use: no map field of a parser object is filled in the same loop that (transitively) looks it up on that object", 1)
	pp := cc.Pkg("parser")
	if pp == nil {
		ctx.Unresolved("C10.R9", "parser package", "not loaded")
		return
	}
	res := cc.Resolver()
	// map field (of a struct of package parser) behind a map value, with the object it is read from
	fieldOfMap := func(m ssa.Value) (obj ssa.Value, field string) {
		u, ok := ssax.Strip(m).(*ssa.UnOp)
		if !ok || u.Op != token.MUL {
			return nil, ""
		}
		fa, ok := u.X.(*ssa.FieldAddr)
		if !ok {
			return nil, ""
		}
		pt, ok := fa.X.Type().Underlying().(*types.Pointer)
		if !ok {
			return nil, ""
		}
		n, ok := pt.Elem().(*types.Named)
		if !ok || n.Obj().Pkg() != pp.Pkg {
			return nil, ""
		}
		st := n.Underlying().(*types.Struct)
		return ssax.Strip(fa.X), n.Obj().Name() + "." + st.Field(fa.Field).Name()
	}
	// does g, handed the object as parameter #pi, look field up on it (depth-bounded)?
	var looksUp func(g *ssa.Function, pi int, field string, depth int, seen map[*ssa.Function]bool) ssa.Instruction
	looksUp = func(g *ssa.Function, pi int, field string, depth int, seen map[*ssa.Function]bool) ssa.Instruction {
		if g == nil || len(g.Blocks) == 0 || pi >= len(g.Params) || seen[g] || depth < 0 {
			return nil
		}
		seen[g] = true
		var hit ssa.Instruction
		ssax.Instrs(g, func(in ssa.Instruction) {
			if hit != nil {
				return
			}
			if lk, ok := in.(*ssa.Lookup); ok {
				if o, f := fieldOfMap(lk.X); f == field && o == ssa.Value(g.Params[pi]) {
					hit = in
				}
			}
			if c, ok := ssax.AsCall(in); ok {
				for i, a := range c.Args() {
					if ssax.Strip(a) == ssa.Value(g.Params[pi]) {
						for _, t := range res(c) {
							if h := looksUp(t, i, field, depth-1, seen); h != nil {
								hit = h
							}
						}
					}
				}
			}
		})
		return hit
	}
	n := 0
	for _, fn := range cc.Fns {
		if fn.Pkg != pp {
			continue
		}
		ssax.Instrs(fn, func(in ssa.Instruction) {
			mu, ok := in.(*ssa.MapUpdate)
			if !ok || !inCycle(in) {
				return
			}
			obj, field := fieldOfMap(mu.Map)
			if obj == nil {
				return
			}
			n++
			construct := QName(fn) + " › " + field + " filled in a loop"
			var bad ssa.Instruction
			sameLoop := func(x ssa.Instruction) bool {
				return x.Block() == in.Block() || (blockReaches(in.Block(), x.Block()) && blockReaches(x.Block(), in.Block()))
			}
			ssax.Instrs(fn, func(x ssa.Instruction) {
				if bad != nil || !sameLoop(x) {
					return
				}
				if lk, ok := x.(*ssa.Lookup); ok {
					if o, f := fieldOfMap(lk.X); f == field && o == obj {
						// a duplicate test on the key being inserted is not a reference to another declaration
						if ssax.Strip(lk.Index) != ssax.Strip(mu.Key) {
							bad = x
						}
					}
				}
				if c, ok := ssax.AsCall(x); ok {
					for i, a := range c.Args() {
						if ssax.Strip(a) != obj {
							continue
						}
						for _, t := range res(c) {
							if h := looksUp(t, i, field, 3, map[*ssa.Function]bool{}); h != nil {
								bad = x
							}
						}
					}
				}
			})
			if bad == nil {
				ctx.Discharge("C10.R9", construct, cc.IPos(in), "nothing in the same loop looks the index up on the same object")
			} else {
				ctx.Violate("C10.R9", construct, cc.IPos(bad),
					"the index is consulted (here) in the same loop that is still filling it: a reference to a declaration that comes later in the file is not found, so valid IDL is rejected or resolved differently depending on declaration order")
			}
		})
	}
	if n == 0 {
		ctx.Discharge("C10.R9", "parser › no index is filled in a loop", "", "no map field of a parser object is updated inside a loop")
	}
}

// everyTrip: instruction in (inside a loop) is executed on every trip of its
// innermost loop: from the entry of the loop body no way leads back to the
// loop header without passing it.
func everyTrip(in ssa.Instruction) bool {
	if !inCycle(in) {
		return false
	}
	fn := in.Parent()
	var header *ssa.BasicBlock
	for b := in.Block(); b != nil && header == nil; b = b.Idom() {
		for _, p := range b.Preds {
			if b.Dominates(p) && (p == in.Block() || in.Block() == b || blockReaches(in.Block(), p)) {
				header = b
			}
		}
	}
	if header == nil {
		return false
	}
	isIn := func(x ssa.Instruction) bool { return x == in }
	isHeader := func(x ssa.Instruction) bool { return x.Block() == header && x == header.Instrs[0] }
	for _, s := range header.Succs {
		if s != header && !blockReaches(s, header) {
			continue // loop exit
		}
		if len(s.Instrs) == 0 || isIn(s.Instrs[0]) {
			continue
		}
		// s.Instrs[0] itself is the start; PathFrom starts after `from`, so test a header hit at the start too
		if isHeader(s.Instrs[0]) {
			return false
		}
		if ssax.PathFrom(fn, s.Instrs[0], isHeader, isIn) != nil {
			return false
		}
	}
	return true
}

// c10ForcedModifiers — C10.R10: where the parser overrides the declared
// requiredness of a list of fields (union members and declared exceptions are
// optional whatever the IDL says), it does so for every field of the list: the
// store of the constant modifier inside the loop is unconditional.
func c10ForcedModifiers(ctx *core.Ctx, cc *CC) {
	ctx.Rule("C10.R10", "forced requiredness is unconditional: a loop of the parser that sets the modifier of the fields of a list to a constant does so on every trip", 2)
	pp := cc.Pkg("parser")
	if pp == nil {
		return
	}
	n := 0
	for _, fn := range cc.Fns {
		if fn.Pkg != pp {
			continue
		}
		ord := 0
		ssax.Instrs(fn, func(in ssa.Instruction) {
			st, ok := in.(*ssa.Store)
			if !ok || fieldNameOfAddr(st.Addr) != "Modifier" || !inCycle(in) {
				return
			}
			if _, isK := ssax.ConstInt(st.Val); !isK {
				return
			}
			// the field comes from a slice element (a list of declared fields)
			fa, isFA := st.Addr.(*ssa.FieldAddr)
			if !isFA {
				return
			}
			if u, isU := ssax.Strip(fa.X).(*ssa.UnOp); !isU || u.Op != token.MUL {
				return
			} else if _, isIA := u.X.(*ssa.IndexAddr); !isIA {
				return
			}
			n++
			ord++
			ctx.Check(everyTrip(in), "C10.R10", QName(fn)+sprintf(" › modifier override #%d applies to every field of the list", ord), cc.IPos(in),
				"the store is executed on every trip of the loop", "the override is conditional (e.g. only for fields without an explicit keyword): `required` on a union member or a declared exception survives into the model, so two IDL spellings of the same declaration give different models and the generators treat the field as required")
		})
	}
	_ = n
}

// c10IncludeDir — C10.R11: an include is a path relative to the file that
// contains the include statement. Where the parser recurses for an include (a
// recursive call inside the loop over .Includes), a path argument of the
// recursion is built from that file's own directory (filepath.Dir of the file
// being parsed, or the Dir field it was stored in) — not handed down from the
// root unchanged.
func c10IncludeDir(ctx *core.Ctx, cc *CC) {
	ctx.Rule("C10.R11", "includes are resolved relative to the including file: the recursive parse of an include gets a path built from the directory of the file being parsed", 1)
	pp := cc.Pkg("parser")
	if pp == nil {
		return
	}
	res := cc.Resolver()
	// P: the function that opens and parses one file and (through itself or helpers) its includes
	reaches := func(from, to *ssa.Function) bool {
		seen := map[*ssa.Function]bool{}
		var walk func(g *ssa.Function, d int) bool
		walk = func(g *ssa.Function, d int) bool {
			if seen[g] || d < 0 {
				return false
			}
			seen[g] = true
			for _, c := range ssax.Calls(g) {
				for _, t := range res(c) {
					if t == to {
						return true
					}
					if t != nil && t.Pkg == pp && walk(t, d-1) {
						return true
					}
				}
			}
			return false
		}
		return walk(from, 2)
	}
	n := 0
	for _, P := range cc.Fns {
		if P.Pkg != pp || len(ssax.CallsTo(P, "os.Open")) == 0 || !reaches(P, P) {
			continue
		}
		// every call of P made from inside its own recursion
		for _, caller := range cc.Fns {
			if caller.Pkg != pp || !(caller == P || (reaches(P, caller) && reaches(caller, P))) {
				continue
			}
			var dirs []ssa.Value // directory of the file being parsed, as seen in the caller
			ssax.Instrs(caller, func(in ssa.Instruction) {
				if c, ok := ssax.AsCall(in); ok && (c.FullName() == "path/filepath.Dir" || c.FullName() == "path.Dir") {
					if v, isV := in.(ssa.Value); isV {
						dirs = append(dirs, v)
					}
				}
				if u, ok := in.(*ssa.UnOp); ok && fieldNameOfValue(u) == "Dir" {
					dirs = append(dirs, u)
				}
			})
			for _, c := range ssax.Calls(caller) {
				hit := false
				for _, t := range res(c) {
					if t == P {
						hit = true
					}
				}
				if !hit {
					continue
				}
				n++
				ok := false
				for _, a := range c.Args() {
					if b, isB := a.Type().Underlying().(*types.Basic); !isB || b.Kind() != types.String {
						continue
					}
					for _, d := range dirs {
						if dependsOn(a, d, 0) {
							ok = true
						}
					}
					// … on every alternative: a path that is, on some branch, resolved
					// another way (against the working directory, the root) is not
					// "relative to the including file"
					if ph, isPhi := ssax.Strip(a).(*ssa.Phi); isPhi && ok {
						for _, e := range ph.Edges {
							any := false
							for _, d := range dirs {
								if dependsOn(e, d, 0) {
									any = true
								}
							}
							if !any {
								ok = false
							}
						}
					}
				}
				ctx.Check(ok, "C10.R11", QName(caller)+sprintf(" › include #%d is opened relative to the including file", n), cc.IPos(c.Instr), "a path argument of the recursion is built from filepath.Dir of the current file",
					"no path argument of the recursive parse depends on the directory of the file being parsed (the root's directory is handed down instead): an included file in another directory that includes a sibling by relative path is rejected with 'no such file' — or a same-named file next to the root is parsed silently in its place")
			}
		}
	}
	if n == 0 {
		ctx.Unresolved("C10.R11", "include recursion", "no recursive file parser found in package parser")
	}
}

// c10JSONAnnotations — C10.R12: the JSON descriptor (-gen json) is the
// machine-readable form of the parsed model; a type's annotations are part of
// it at every depth. Every conversion of a parser.Type in package json goes
// through a function that copies that type's Annotations: a "raw" converter
// (one that does not read them) is only ever called on a value whose
// annotations the caller itself copies.
func c10JSONAnnotations(ctx *core.Ctx, cc *CC) {
	ctx.Rule("C10.R12", "the JSON descriptor keeps type annotations at every depth: a converter that ignores a type's annotations is called only on a type whose annotations the caller copies", 1)
	jp := cc.Pkg("generator/json")
	if jp == nil {
		jp = cc.Pkg("json")
	}
	if jp == nil {
		ctx.Unresolved("C10.R12", "json generator", "package not loaded")
		return
	}
	readsAnn := func(fn *ssa.Function, v ssa.Value) bool {
		found := false
		ssax.Instrs(fn, func(in ssa.Instruction) {
			if fa, ok := in.(*ssa.FieldAddr); ok && ssax.Strip(fa.X) == ssax.Strip(v) {
				st := fa.X.Type().Underlying().(*types.Pointer).Elem().Underlying().(*types.Struct)
				if st.Field(fa.Field).Name() == "Annotations" {
					found = true
				}
			}
		})
		return found
	}
	n := 0
	for _, fn := range cc.Fns {
		if fn.Pkg != jp {
			continue
		}
		for _, c := range ssax.Calls(fn) {
			g := c.Static
			if g == nil || g.Pkg != jp || len(g.Blocks) == 0 {
				continue
			}
			for i, a := range c.Common.Args {
				if i >= len(g.Params) || !ssax.TypeNamed(a.Type(), "parser", "Type") {
					continue
				}
				if readsAnn(g, g.Params[i]) {
					continue // an annotated conversion
				}
				n++
				ctx.Check(readsAnn(fn, a), "C10.R12", QName(fn)+sprintf(" › raw conversion #%d of a type whose annotations are copied here", n), cc.IPos(c.Instr), "the caller reads .Annotations of the value it converts raw",
					"a type is converted by "+g.Name()+", which ignores its annotations, and the caller does not copy them either: annotations on this type (an element, key or value type of a container, say) are missing from the JSON descriptor")
			}
		}
	}
	if n == 0 {
		ctx.Discharge("C10.R12", "json › no raw type conversion", "", "every converter of parser.Type copies the annotations itself")
	}
}

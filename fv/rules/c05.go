package rules

import (
	"go/token"
	"go/types"
	"sort"
	"strings"

	"fv/internal/bounds"
	"fv/internal/core"
	"fv/internal/ssax"

	"golang.org/x/tools/go/ssa"
)

// httpHandlers: function values converted to net/http.HandlerFunc.
func httpHandlers(r *RT) []*ssa.Function {
	var out []*ssa.Function
	for _, fn := range r.Fns {
		ssax.Instrs(fn, func(in ssa.Instruction) {
			if ct, ok := in.(*ssa.ChangeType); ok && ssax.TypeNamed(ct.Type(), "net/http", "HandlerFunc") {
				out = append(out, funcValues(ct.X)...)
			}
		})
	}
	return out
}

// msgLoops: functions started with `go` (directly or through a closure) that
// receive pointer-to-struct messages from a channel inside a loop.
func spawned(r *RT) map[*ssa.Function]*ssa.Function {
	out := map[*ssa.Function]*ssa.Function{} // spawned fn -> spawner
	for _, fn := range r.Fns {
		for _, c := range ssax.Calls(fn) {
			if _, ok := c.Instr.(*ssa.Go); !ok {
				continue
			}
			for _, t := range r.Resolve(c) {
				out[t] = fn
			}
			for _, t := range funcValues(c.Common.Value) {
				out[t] = fn
			}
		}
	}
	return out
}

func isMsgChan(t types.Type) bool {
	ch, ok := t.Underlying().(*types.Chan)
	if !ok {
		return false
	}
	p, ok := ch.Elem().Underlying().(*types.Pointer)
	if !ok {
		return false
	}
	_, ok = p.Elem().Underlying().(*types.Struct)
	return ok
}

func isSignalChan(t types.Type) bool {
	ch, ok := t.Underlying().(*types.Chan)
	if !ok {
		return false
	}
	switch e := ch.Elem().Underlying().(type) {
	case *types.Struct:
		return e.NumFields() == 0
	case *types.Basic:
		return e.Kind() == types.Bool
	}
	return false
}

// receiveLoops: functions with a cycle that receives from a message channel.
func receiveLoops(r *RT) []*ssa.Function {
	var out []*ssa.Function
	for _, fn := range r.Fns {
		for _, rs := range RecvSites(fn) {
			if isMsgChan(rs.Chan.Type()) && inCycle(rs.Instr) {
				out = append(out, fn)
				break
			}
		}
	}
	return out
}

// lifecycleDominated: is block b reached only through a lifecycle signal edge
// (quit/stop channel case, or channel-closed !ok edge)?
func lifecycleDominated(fn *ssa.Function, b *ssa.BasicBlock) (string, bool) {
	for cur := b; cur != nil; cur = cur.Idom() {
		// (a) case body of a select receive on a signal channel
		if len(cur.Preds) == 1 {
			p := cur.Preds[0]
			if iff, ok := p.Instrs[len(p.Instrs)-1].(*ssa.If); ok {
				if bo, ok := iff.Cond.(*ssa.BinOp); ok && bo.Op == token.EQL && p.Succs[0] == cur {
					if ex, ok := bo.X.(*ssa.Extract); ok && ex.Index == 0 {
						if sel, ok := ex.Tuple.(*ssa.Select); ok {
							if idx, k := ssax.ConstInt(bo.Y); k && int(idx) < len(sel.States) {
								st := sel.States[idx]
								if st.Dir == types.RecvOnly && isSignalChan(st.Chan.Type()) {
									return "select case on signal channel " + ssax.AddrKey(st.Chan), true
								}
							}
						}
					}
				}
				// (b) !ok edge of a receive
				if ex, ok := iff.Cond.(*ssa.Extract); ok {
					isRecvOK := false
					switch t := ex.Tuple.(type) {
					case *ssa.UnOp:
						isRecvOK = t.Op == token.ARROW && t.CommaOk && ex.Index == 1
					case *ssa.Select:
						isRecvOK = ex.Index == 1
					}
					if isRecvOK && p.Succs[1] == cur {
						return "channel-closed (!ok) edge", true
					}
				}
			}
		}
	}
	return "", false
}

// C05 — no received byte sequence can crash or wedge a process.
func C05(ctx *core.Ctx) {
	ctx.Explanation = "Decides, for every byte sequence, the absence of bounds / make / explicit panics on all paths of the receive cones inside package frugal and that message-oriented receive loops cannot be left because of message content: " +
		"every index, slice, make-length and encoding/binary access in the cone of the receiving entry points (found by type: NATS message handlers, the HTTP handler, goroutine receive loops, the read loop, accept, and the decoding halves of client and server) is proved in range by a linear-inequality prover from the dominating branch conditions (machine arithmetic respected: an addition counts only if its no-overflow is itself proved); " +
		"no source-level panic/Fatal/Exit and no unchecked type assertion in the cone; every exit of a message loop is dominated by a lifecycle signal; connection-oriented readers exit through close(cause). " +
		"A result that some implementation returns as (nil, nil error) is used by callers only under a non-nil test (R8). Not decided: panics inside thrift/nats/stomp/generated code and user handlers, nil dereferences other than R8's, memory exhaustion by huge-but-legal sizes."
	c05Config(ctx, "", "")
}

func c05Config(ctx *core.Ctx, goos, goarch string) {
	r := LoadRT(ctx, goos, goarch)
	if !r.OK() {
		return
	}
	fullReads(ctx, r, "C05.R14")
	ctx.Rule("C05.R1", "entry inventory: receiving entry points found by type", 12)
	ctx.Rule("C05.R2", "bounds: every index/slice/encoding-binary access in the receive cone is proved in range", 14)
	ctx.Rule("C05.R3", "allocation sizes: every non-constant make length in the cone is proved non-negative", 2)
	ctx.Rule("C05.R4", "no explicit crash: no source-level panic / log.Fatal / os.Exit and no unchecked type assertion in the cone", 20)
	ctx.Rule("C05.R5", "loop-exit discipline: every exit of a message-oriented receive loop is dominated by a lifecycle signal (quit/stop case or channel closed), never by message content", 3)
	ctx.Rule("C05.R6", "connection-oriented receivers: every exit of the frame reader loop consumed the close token or went through close(cause)", 4)
	ctx.Rule("C05.R7", "no mutex is leaked by a function of the receive cone", 3)

	c05NilResults(ctx, r)
	c05ServerLoopErrors(ctx, r)
	ctx.Rule("C05.R10", "one message cannot poison the next: server-side message handlers decode from and encode into transports allocated for that message", 2)
	perMessageTransports(ctx, r, "C05.R10")
	ctx.Rule("C05.R12", "what one connection left half-read never reaches the next: the frame decoder of a reader loop is built by that loop (not per frame, not kept in a field of the transport)", 1)
	decoderPerLoop(ctx, r, "C05.R12")
	// a goroutine that re-acquires a mutex it holds wedges itself and everyone behind that mutex
	noDoubleAcquire(ctx, r, "C05.R7", "FBaseProcessor", "FBaseProcessorFunction", "fRegistryImpl", "fAdapterTransport")

	// ---- R1 -----------------------------------------------------------------------
	entries := map[*ssa.Function]string{}
	for h := range msgHandlers(r) {
		entries[h] = "nats.MsgHandler"
	}
	for _, h := range httpHandlers(r) {
		entries[h] = "http.HandlerFunc"
	}
	loops := receiveLoops(r)
	for _, l := range loops {
		entries[l] = "message receive loop"
	}
	sp := spawned(r)
	// reader loops (connection oriented): spawned functions with a cycle calling fRegistry.Execute
	var readers []*ssa.Function
	for fn := range sp {
		if cycleReaches(fn, func(c ssax.Call) bool { return c.Method != nil && c.Method.Name() == "Execute" }) {
			entries[fn] = "frame reader loop"
			readers = append(readers, fn)
		}
	}
	// per-connection server loop: function with a cycle invoking FProcessor.Process
	for _, fn := range r.Fns {
		for _, c := range ssax.Calls(fn) {
			if c.Method != nil && c.Method.Name() == "Process" && ssax.TypeNamed(c.Common.Value.Type(), "", "FProcessor") && inCycle(c.Instr.(ssa.Instruction)) {
				entries[fn] = "per-connection server loop"
			}
		}
	}
	// decoding halves
	for _, name := range []string{"(FStandardClient).processReply", "(*fHTTPTransport).Request", "(*FBaseProcessor).Process"} {
		if f := r.Fn("C05.R1", name); f != nil {
			entries[f] = "decoding half"
		}
	}
	var entryList []*ssa.Function
	for f := range entries {
		entryList = append(entryList, f)
	}
	sort.Slice(entryList, func(i, j int) bool { return entryList[i].String() < entryList[j].String() })
	for _, f := range entryList {
		ctx.Discharge("C05.R1", ssax.Name(f)+" › receiving entry point ("+entries[f]+")", fnPos(r, f), "discovered by type; included in the cone")
	}

	// ---- cone -----------------------------------------------------------------------
	// The encoding side is cut out of the cone: its sizes are computed from
	// in-memory maps and buffers (a panic there needs ≥ 2 GiB of header data,
	// i.e. memory exhaustion, which C05 does not decide); its offset
	// arithmetic is C04's subject.
	encoder := func(f *ssa.Function) bool {
		if f.Signature.Recv() != nil && ssax.TypeNamed(f.Signature.Recv().Type(), "", "TMemoryOutputBuffer") {
			return true
		}
		n := f.Name()
		return n == "marshalHeaders" || n == "calculateHeaderSize" || n == "prependFrameSize"
	}
	resolve := func(c ssax.Call) []*ssa.Function {
		var out []*ssa.Function
		for _, f := range r.Resolve(c) {
			if !encoder(f) {
				out = append(out, f)
			}
		}
		// in-package values handed to external code as readers: their Read is reachable
		if c.Static != nil && c.Static.Pkg != r.Pkg && c.Static.Parent() == nil {
			for _, a := range c.Common.Args {
				t := ssax.Strip(a).Type()
				if p, ok := t.(*types.Pointer); ok {
					if n, ok := p.Elem().(*types.Named); ok && n.Obj().Pkg() == r.Pkg.Pkg {
						ms := r.Pkg.Prog.MethodSets.MethodSet(t)
						for _, mname := range []string{"Read", "ReadByte"} {
							if sel := ms.Lookup(r.Pkg.Pkg, mname); sel != nil {
								if f := r.Pkg.Prog.MethodValue(sel); f != nil && f.Pkg == r.Pkg {
									out = append(out, f)
								}
							}
						}
					}
				}
			}
		}
		// the FProtocol created on an in-package transport reads through it
		return out
	}
	cone := ssax.Cone(entryList, resolve, true)
	// goroutines spawned from the cone for sending (ack etc.) are included by followGo=true
	ctx.Stat("c05_cone_functions", len(cone))
	inCone := map[*ssa.Function]bool{}
	for _, f := range cone {
		inCone[f] = true
	}

	// ---- R2/R3 ------------------------------------------------------------------------
	cfg := &bounds.Config{IntBits: IntBits(), AssumeLenI32: true}
	pr := bounds.New(cfg)
	// call sites of unexported functions across the whole package
	sites := map[*ssa.Function][]bounds.CallSite{}
	unknownCallers := map[*ssa.Function]bool{}
	for _, fn := range r.Fns {
		for _, c := range ssax.Calls(fn) {
			for _, t := range r.ResolveCHA(c) {
				if t.Pkg != r.Pkg || t.Object() == nil || t.Object().Exported() {
					continue
				}
				if _, isGo := c.Instr.(*ssa.Go); isGo {
					continue
				}
				sites[t] = append(sites[t], bounds.CallSite{Instr: c.Instr.(ssa.Instruction), Args: c.Args()})
			}
		}
		// address-taken functions have unknown callers
		ssax.Instrs(fn, func(in ssa.Instruction) {
			for _, op := range in.Operands(nil) {
				if f, ok := (*op).(*ssa.Function); ok {
					if c, isCall := in.(ssa.CallInstruction); isCall && c.Common().Value == *op {
						continue
					}
					unknownCallers[f] = true
				}
			}
		})
	}
	for f := range unknownCallers {
		delete(sites, f)
	}
	coneSites := map[*ssa.Function][]bounds.CallSite{}
	for f, s := range sites {
		if inCone[f] {
			coneSites[f] = s
		}
	}
	pr.InferPreconditions(coneSites)
	for _, fn := range cone {
		pr.InferInvariants(fn)
	}
	nob := 0
	for _, fn := range cone {
		obs := pr.Check(fn)
		ord := map[string]int{}
		for _, o := range obs {
			nob++
			rule := "C05.R2"
			if o.Kind == "make" {
				rule = "C05.R3"
			}
			ord[o.Desc]++
			construct := ssax.Name(fn) + " › " + o.Desc
			if ord[o.Desc] > 1 {
				construct += sprintf(" #%d", ord[o.Desc])
			}
			if o.Proved {
				how := "entailed by the dominating branch conditions"
				if pre := pr.Pre[fn]; len(pre) > 0 {
					var ps []string
					for _, p := range pre {
						ps = append(ps, preString(fn, p))
					}
					how += " and the preconditions {" + strings.Join(ps, ", ") + "} (each entailed at every call site)"
				}
				ctx.Discharge(rule, construct, r.IPos(o.Instr), how)
			} else {
				ctx.Violate(rule, construct, r.IPos(o.Instr),
					"a received byte sequence can make this access panic — cannot prove "+o.Need+" from {"+o.Facts+"}")
			}
		}
	}
	ctx.Stat("c05_bounds_obligations", nob)
	for s := range cfg.UsedSummaries {
		ctx.Assume(s)
	}

	// ---- R4 ---------------------------------------------------------------------------
	for _, fn := range cone {
		bad := 0
		ssax.Instrs(fn, func(in ssa.Instruction) {
			switch x := in.(type) {
			case *ssa.Panic:
				if x.Pos().IsValid() {
					bad++
					ctx.Violate("C05.R4", ssax.Name(fn)+" › explicit panic", r.IPos(in), "a source-level panic is reachable from a receiving entry point")
				}
			case *ssa.TypeAssert:
				if !x.CommaOk {
					bad++
					ctx.Violate("C05.R4", ssax.Name(fn)+" › unchecked type assertion to "+x.AssertedType.String(), r.IPos(in), "a non-comma-ok type assertion in the receive cone panics when the dynamic type differs")
				}
			case *ssa.Call:
				c, _ := ssax.AsCall(x)
				full := c.FullName()
				if full == "os.Exit" || strings.HasPrefix(full, "log.Fatal") || strings.Contains(full, ").Fatal") || strings.Contains(full, ").Panic") {
					bad++
					ctx.Violate("C05.R4", ssax.Name(fn)+" › call "+full, r.IPos(in), "process-terminating call reachable from a receiving entry point")
				}
			}
		})
		if bad == 0 {
			ctx.Discharge("C05.R4", ssax.Name(fn)+" › no explicit crash", fnPos(r, fn), "no panic/Fatal/Exit/unchecked assertion")
		}
	}

	// ---- R5 ---------------------------------------------------------------------------
	for _, l := range loops {
		ln := ssax.Name(l)
		n := 0
		ssax.Instrs(l, func(in ssa.Instruction) {
			ret, ok := in.(*ssa.Return)
			if !ok || in.Block().Comment == "recover" {
				return
			}
			n++
			how, ok := lifecycleDominated(l, in.Block())
			ctx.Check(ok, "C05.R5", ln+sprintf(" › exit #%d is a lifecycle exit", retOrdinal(l, ret)), r.IPos(in), how,
				"the receive loop can be left on a path that no quit/stop/closed-channel signal dominates (e.g. a branch on the message's content): one malformed message ends the receiver and later well-formed messages are never handled")
		})
		if n == 0 {
			ctx.Discharge("C05.R5", ln+" › loop never returns", fnPos(r, l), "no return")
		}
	}
	// ---- R6 ---------------------------------------------------------------------------
	for _, rd := range readers {
		readerExits(ctx, r, rd, "C05.R6")
	}
	// ---- R11: no recursion in the cone ------------------------------------------------
	// The depth of a recursion in the receive cone is chosen by the peer (one
	// level per empty frame, per nested element …) and a Go stack overflow is
	// fatal for the whole process, not recoverable. Static call edges only:
	// interface dispatch is not followed (a transport wrapping a transport is
	// not a cycle).
	ctx.Rule("C05.R11", "no function of the receive cone calls itself, directly or through other functions of the package (a peer-chosen recursion depth overflows the stack, which no recover() catches)", 1)
	{
		succ := map[*ssa.Function][]*ssa.Function{}
		at := map[[2]*ssa.Function]ssa.Instruction{}
		for _, fn := range cone {
			for _, c := range ssax.Calls(fn) {
				if _, isGo := c.Instr.(*ssa.Go); isGo {
					continue
				}
				if g := c.Static; g != nil && inCone[g] && g.Pkg == r.Pkg {
					succ[fn] = append(succ[fn], g)
					if at[[2]*ssa.Function{fn, g}] == nil {
						at[[2]*ssa.Function{fn, g}] = c.Instr
					}
				}
			}
		}
		nCyc := 0
		for _, fn := range cone {
			if fn.Pkg != r.Pkg {
				continue
			}
			// can fn reach itself?
			seen := map[*ssa.Function]bool{}
			stack := append([]*ssa.Function{}, succ[fn]...)
			cyc := false
			for len(stack) > 0 {
				x := stack[len(stack)-1]
				stack = stack[:len(stack)-1]
				if x == fn {
					cyc = true
					break
				}
				if seen[x] {
					continue
				}
				seen[x] = true
				stack = append(stack, succ[x]...)
			}
			if cyc && boundedSelfCall(fn, succ[fn]) {
				ctx.Discharge("C05.R11", ssax.Name(fn)+" › self-call of depth one", fnPos(r, fn), "the only cycle is a self-call on a fresh buffer of exactly n bytes under the guard n < len(buf): the guard is false in the callee, so the depth is at most one")
				continue
			}
			if cyc {
				nCyc++
				pos := fnPos(r, fn)
				for _, g := range succ[fn] {
					if g == fn || seen[g] {
						if in := at[[2]*ssa.Function{fn, g}]; in != nil {
							pos = r.IPos(in)
						}
					}
				}
				ctx.Violate("C05.R11", ssax.Name(fn)+" › not recursive", pos, "the function is on a call cycle inside the receive cone: each level of the recursion is paid for by a few received bytes (an empty frame, a nested element), so a peer can drive the goroutine stack to its limit — `fatal error: stack overflow` ends the process and cannot be recovered")
			}
		}
		if nCyc == 0 {
			ctx.Discharge("C05.R11", "receive cone › no static call cycle", "", sprintf("%d functions, static call edges inside the package", len(cone)))
		}
	}
	// ---- R7 ---------------------------------------------------------------------------
	for _, fn := range cone {
		uses := false
		for _, c := range ssax.Calls(fn) {
			if _, op := ssax.LockOp(c); op == "Lock" || op == "RLock" {
				uses = true
			}
		}
		if !uses {
			continue
		}
		leaks := ssax.LeakedLocks(fn)
		if len(leaks) == 0 {
			ctx.Discharge("C05.R7", ssax.Name(fn)+" › every acquired lock is released on all exits", fnPos(r, fn), "may-hold lockset empty at every return")
		}
		for _, lk := range leaks {
			ctx.Violate("C05.R7", ssax.Name(fn)+" › lock "+lk.Key+" still held at a return", r.IPos(lk.Return),
				"a function on the receive path returns with a mutex held: the next message blocks forever", ssax.PathString(r.V.Fset, lk.Path)...)
		}
	}
}

func preString(fn *ssa.Function, p bounds.Pre) string {
	name := func(s string) string {
		if s == "" {
			return "0"
		}
		var idx int
		if strings.HasPrefix(s, "p:") {
			idx = int(s[2] - '0')
			if idx < len(fn.Params) {
				return fn.Params[idx].Name()
			}
		}
		if strings.HasPrefix(s, "len:") {
			idx = int(s[4] - '0')
			if idx < len(fn.Params) {
				return "len(" + fn.Params[idx].Name() + ")"
			}
		}
		return s
	}
	if p.K != 0 {
		return sprintf("%s ≥ %s+%d", name(p.A), name(p.B), p.K)
	}
	return sprintf("%s ≥ %s", name(p.A), name(p.B))
}

// boundedSelfCall: fn's only in-cone callee on a cycle is fn itself, and every
// self-call passes, for the slice parameter b, a fresh make([]T, n) under the
// dominating guard n < len(b) — in the callee len(b) = n, the guard fails, and
// the recursion stops after one level.
func boundedSelfCall(fn *ssa.Function, succs []*ssa.Function) bool {
	found := false
	for _, c := range ssax.Calls(fn) {
		if c.Static != fn {
			continue
		}
		found = true
		ok := false
		for i, a := range c.Common.Args {
			mk, isMk := ssax.Strip(a).(*ssa.MakeSlice)
			if !isMk || i >= len(fn.Params) {
				continue
			}
			par := fn.Params[i]
			nKey := ssax.AddrKey(unconv(mk.Len))
			// a dominating `n < len(par)` on its true edge
			for b := c.Instr.Block(); b != nil && b.Idom() != nil; b = b.Idom() {
				d := b.Idom()
				iff, isIf := d.Instrs[len(d.Instrs)-1].(*ssa.If)
				if !isIf || d.Succs[0] != b || len(b.Preds) != 1 {
					continue
				}
				bo, isB := iff.Cond.(*ssa.BinOp)
				if !isB || bo.Op != token.LSS {
					continue
				}
				ln, isCall := unconv(bo.Y).(*ssa.Call)
				if !isCall {
					continue
				}
				if bi, isBi := ln.Call.Value.(*ssa.Builtin); !isBi || bi.Name() != "len" || ssax.Strip(ln.Call.Args[0]) != ssa.Value(par) {
					continue
				}
				if ssax.AddrKey(unconv(bo.X)) == nKey {
					ok = true
				}
			}
		}
		if !ok {
			return false
		}
	}
	if !found {
		return false
	}
	// no other cycle through fn: every other successor must not reach fn — the
	// caller established reachability over all successors; accept only when fn
	// is its own sole cyclic successor
	for _, g := range succs {
		if g != fn {
			for _, c := range ssax.Calls(g) {
				if c.Static == fn {
					return false
				}
			}
		}
	}
	return true
}

func unconv(v ssa.Value) ssa.Value {
	for {
		switch x := v.(type) {
		case *ssa.Convert:
			v = x.X
			continue
		case *ssa.ChangeType:
			v = x.X
			continue
		}
		return v
	}
}
